#![no_main]
use libfuzzer_sys::fuzz_target;

fuzz_target!(|data: &[u8]| {
    if let Some(v) = abv::fuzz::c01(data) {
        panic!("VIOLATION C01 {}", v);
    }
});
