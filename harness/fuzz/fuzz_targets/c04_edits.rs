#![no_main]
use libfuzzer_sys::fuzz_target;

// C04: edit histories vs the ordered-map model, oracle in-target.
fuzz_target!(|data: &[u8]| {
    if let Some(v) = abv::fuzz::c04(data) {
        panic!("VIOLATION C04 {}", v);
    }
});
