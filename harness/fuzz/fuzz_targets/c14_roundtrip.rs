#![no_main]
use libfuzzer_sys::fuzz_target;

// C14: LIST -> reload -> LIST fixed point and equal behaviour, oracle in-target.
fuzz_target!(|data: &[u8]| {
    if let Some(v) = abv::fuzz::c14(data) {
        panic!("VIOLATION C14 {}", v);
    }
});
