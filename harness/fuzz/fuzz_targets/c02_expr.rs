#![no_main]
use libfuzzer_sys::fuzz_target;

// C02: expression value vs the reference evaluation, oracle in-target.
fuzz_target!(|data: &[u8]| {
    if let Some(v) = abv::fuzz::c02(data) {
        panic!("VIOLATION C02 {}", v);
    }
});
