#![no_main]
use libfuzzer_sys::fuzz_target;

// C19: page protocol over the adapter vs a shadow core interpreter, oracle in-target.
fuzz_target!(|data: &[u8]| {
    if let Some(v) = abv::fuzz::c19(data) {
        panic!("VIOLATION C19 {}", v);
    }
});
