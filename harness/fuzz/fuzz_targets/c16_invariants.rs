#![no_main]
use libfuzzer_sys::fuzz_target;

// C16: state caps and suffix typing after every host call, oracle in-target.
fuzz_target!(|data: &[u8]| {
    if let Some(v) = abv::fuzz::c16(data) {
        panic!("VIOLATION C16 {}", v);
    }
});
