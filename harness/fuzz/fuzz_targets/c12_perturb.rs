#![no_main]
use libfuzzer_sys::fuzz_target;

// C12: spacing / case perturbations of a tagged line, oracle in-target.
fuzz_target!(|data: &[u8]| {
    if let Some(v) = abv::fuzz::c12(data) {
        panic!("VIOLATION C12 {}", v);
    }
});
