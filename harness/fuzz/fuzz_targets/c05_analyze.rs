#![no_main]
use libfuzzer_sys::fuzz_target;

fuzz_target!(|data: &[u8]| {
    if let Some(v) = abv::fuzz::c05(data) {
        panic!("VIOLATION C05 {}", v);
    }
});
