#![no_main]
use libfuzzer_sys::fuzz_target;

// C13: the semantic oracle runs inside the target; any violation aborts.
fuzz_target!(|data: &[u8]| {
    if let Some(v) = abv::fuzz::c13(data) {
        panic!("VIOLATION C13 {}", v);
    }
});
