//! Grammar-based generators for structured BASIC programs (DESIGN 2.1).
//!
//! Identifiers use only letters that occur in no keyword (C J K Q V W Y Z),
//! so the rendered text tokenizes to exactly the intended token sequence.

use crate::ast::*;
use proptest::prelude::*;
use serde::{Deserialize, Serialize};

pub const NUM_VARS: &[&str] = &["C", "J", "K", "Q", "V", "W", "Y", "C1", "K2"];
pub const STR_VARS: &[&str] = &["C$", "J$", "K$", "Q$", "W1$"];
pub const FOR_VARS: &[&str] = &["C", "J", "K", "Y", "W"];
pub const LET_NUM_VARS: &[&str] = &["Q", "V", "W", "Y", "K", "C1", "K2"];
/// (name, rank)
pub const NUM_ARRAYS: &[(&str, usize)] = &[("VV", 1), ("WW", 2), ("C", 1), ("YY", 3)];
pub const STR_ARRAYS: &[(&str, usize)] = &[("VV$", 1), ("K$", 2)];
/// (name, parameter names); a parameter's kind is given by its suffix.
pub const FUNCS: &[(&str, &[&str])] = &[("QQ", &["C"]), ("KK", &["C", "J"]), ("JJ", &["K", "C$"]), ("ZZ$", &["C$"])];

const LABEL_BASE: u64 = 1 << 60;
const BIG_DIMS: &[&[u32]] = &[&[9999], &[10000], &[99, 99], &[100, 99], &[20, 20, 20], &[21, 21, 21]];

#[derive(Debug, Clone, Copy)]
pub struct GenCfg {
    pub allow_input: bool,
    pub allow_stop: bool,
    /// probability weight (0..100) of deliberately ill-typed / failing statements
    pub error_weight: u32,
    /// allow the shapes repaired by F16 (THEN GOSUB|FOR|INPUT|STOP ... ELSE)
    pub allow_suspending_then_with_else: bool,
    pub allow_rnd: bool,
    pub allow_wild: bool,
    pub max_blocks: usize,
    /// DEF statements only at the very beginning (C06 precondition)
    pub defs_first: bool,
}

impl GenCfg {
    pub const C03: GenCfg = GenCfg {
        allow_input: false,
        allow_stop: false,
        error_weight: 6,
        allow_suspending_then_with_else: true,
        allow_rnd: true,
        allow_wild: true,
        max_blocks: 14,
        defs_first: false,
    };
    pub fn with_input(self) -> GenCfg {
        GenCfg { allow_input: true, allow_stop: true, ..self }
    }
}

// ------------------------------------------------------------------ expressions

/// Weighted choice that drops zero-weight options (proptest's unions either
/// reject them or may still reach them while shrinking).
fn weighted<T: std::fmt::Debug + 'static>(opts: Vec<(u32, BoxedStrategy<T>)>) -> BoxedStrategy<T> {
    let opts: Vec<(u32, BoxedStrategy<T>)> = opts.into_iter().filter(|(w, _)| *w > 0).collect();
    proptest::strategy::Union::new_weighted(opts).boxed()
}

fn pick<T: Clone + std::fmt::Debug + 'static>(items: &'static [T]) -> impl Strategy<Value = T> {
    (0..items.len()).prop_map(move |i| items[i].clone())
}

pub fn num_literal() -> impl Strategy<Value = Expr> {
    prop_oneof![
        6 => (0u32..12).prop_map(|n| Expr::Num(n as f64)),
        2 => pick(&[0.5f64, 0.25, 1.5, 2.75, 10.0, 100.0, 7.25, 0.1]).prop_map(Expr::Num),
        1 => (0u32..100000).prop_map(|n| Expr::Num(n as f64 / 100.0)),
    ]
}

pub fn str_literal() -> impl Strategy<Value = Expr> {
    prop_oneof![
        4 => pick(&["", "a", "b", "ab", "A", "hello", "x y", "1", "THEN", "é", ":", ","]).prop_map(|s| Expr::Str(s.to_string())),
        1 => "[ -!#-~]{0,6}".prop_map(Expr::Str),
    ]
}

fn small_index() -> impl Strategy<Value = Expr> {
    prop_oneof![
        70 => (0u32..11).prop_map(|n| Expr::Num(n as f64)),
        3 => pick(NUM_VARS).prop_map(|v| Expr::var(v)),
        1 => Just(Expr::Num(11.0)),
        1 => Just(Expr::Num(2.5)),
        1 => Just(Expr::un(UnOp::Neg, Expr::Num(1.0))),
        1 => (pick(NUM_VARS), 0u32..4).prop_map(|(v, n)| Expr::bin(BinOp::Add, Expr::var(v), Expr::Num(n as f64))),
    ]
}

fn cell_of(arrays: &'static [(&'static str, usize)]) -> impl Strategy<Value = (String, Vec<Expr>)> {
    (0..arrays.len(), prop::collection::vec(small_index(), 3), 0u32..150).prop_map(move |(i, idx, wrong)| {
        let (name, rank) = arrays[i];
        // occasionally the wrong number of subscripts (BAD SUBSCRIPT at run time)
        let r = if wrong == 0 { (rank % 3) + 1 } else { rank };
        (name.to_string(), idx[..r].to_vec())
    })
}

pub fn str_atom() -> BoxedStrategy<Expr> {
    prop_oneof![
        4 => str_literal(),
        5 => pick(STR_VARS).prop_map(|v| Expr::var(v)),
        2 => cell_of(STR_ARRAYS).prop_map(|(n, i)| Expr::Cell(n, i)),
        1 => prop_oneof![str_literal(), pick(STR_VARS).prop_map(|v| Expr::var(v))].prop_map(|a| Expr::Call("ZZ$".into(), vec![a])),
    ]
    .boxed()
}

fn cmp_op() -> impl Strategy<Value = BinOp> {
    pick(&[BinOp::Eq, BinOp::Ne, BinOp::Lt, BinOp::Le, BinOp::Gt, BinOp::Ge])
}

/// Well-typed numeric expression. `rnd`: RND(1) may appear. `ill`: weight
/// (out of 1000) of a string leaf where a number is needed.
pub fn num_expr(depth: u32, rnd: bool, ill: u32) -> BoxedStrategy<Expr> {
    let leaf = weighted(vec![
        (2000, num_literal().boxed()),
        (2000, pick(NUM_VARS).prop_map(|v| Expr::var(v)).boxed()),
        (800, cell_of(NUM_ARRAYS).prop_map(|(n, i)| Expr::Cell(n, i)).boxed()),
        (400, (str_atom(), cmp_op(), str_atom()).prop_map(|(a, o, b)| Expr::bin(o, a, b)).boxed()),
        (if rnd { 200 } else { 0 }, pick(&[1.0f64, 1.0, 0.0, 5.0]).prop_map(|x| Expr::Rnd(Box::new(Expr::Num(x)))).boxed()),
        (ill, str_atom()),
    ]);
    leaf.prop_recursive(depth, 24, 3, |inner| {
        prop_oneof![
            8 => (pick(&[BinOp::Add, BinOp::Sub, BinOp::Mul]), inner.clone(), inner.clone()).prop_map(|(o, l, r)| Expr::bin(o, l, r)),
            2 => (inner.clone(), prop_oneof![4 => (1u32..9).prop_map(|n| Expr::Num(n as f64)), 1 => inner.clone()]).prop_map(|(l, r)| Expr::bin(BinOp::Div, l, r)),
            1 => (inner.clone(), (0u32..4).prop_map(|n| Expr::Num(n as f64))).prop_map(|(l, r)| Expr::bin(BinOp::Pow, l, r)),
            4 => (cmp_op(), inner.clone(), inner.clone()).prop_map(|(o, l, r)| Expr::bin(o, l, r)),
            3 => (pick(&[BinOp::And, BinOp::Or]), inner.clone(), inner.clone()).prop_map(|(o, l, r)| Expr::bin(o, l, r)),
            2 => (pick(&[UnOp::Neg, UnOp::Not, UnOp::Plus]), inner.clone()).prop_map(|(o, e)| Expr::un(o, e)),
            1 => inner.clone().prop_map(|e| Expr::Abs(Box::new(e))),
            1 => inner.clone().prop_map(|e| Expr::Int(Box::new(e))),
            1 => inner.clone().prop_map(|e| Expr::Paren(Box::new(e))),
            2 => inner.clone().prop_map(|e| Expr::Call("QQ".into(), vec![e])),
            1 => (inner.clone(), inner.clone()).prop_map(|(a, b)| Expr::Call("KK".into(), vec![a, b])),
            1 => (inner.clone(), str_atom()).prop_map(|(a, b)| Expr::Call("JJ".into(), vec![a, b])),
        ]
    })
    .boxed()
}

/// A condition for IF: usually a comparison or logic expression.
pub fn cond_expr(rnd: bool, ill: u32) -> BoxedStrategy<Expr> {
    prop_oneof![
        6 => (cmp_op(), num_expr(1, rnd, ill), num_expr(1, rnd, ill)).prop_map(|(o, l, r)| Expr::bin(o, l, r)),
        2 => (str_atom(), cmp_op(), str_atom()).prop_map(|(a, o, b)| Expr::bin(o, a, b)),
        2 => num_expr(2, rnd, ill),
        1 => str_atom(),
        1 => pick(&[0.0f64, 1.0]).prop_map(Expr::Num),
    ]
    .boxed()
}

pub fn lvalue_num() -> BoxedStrategy<LValue> {
    prop_oneof![
        5 => pick(LET_NUM_VARS).prop_map(|v| LValue::Var(v.to_string())),
        2 => cell_of(NUM_ARRAYS).prop_map(|(n, i)| LValue::Cell(n, i)),
    ]
    .boxed()
}

pub fn lvalue_str() -> BoxedStrategy<LValue> {
    prop_oneof![
        5 => pick(STR_VARS).prop_map(|v| LValue::Var(v.to_string())),
        2 => cell_of(STR_ARRAYS).prop_map(|(n, i)| LValue::Cell(n, i)),
    ]
    .boxed()
}

pub fn data_item() -> impl Strategy<Value = DataItem> {
    prop_oneof![
        5 => (-20i32..100).prop_map(|n| DataItem::Num(n as f64)),
        1 => pick(&[0.5f64, -1.25, 3.75, 1000000.0]).prop_map(DataItem::Num),
        3 => pick(&["", "a", "hello world", "x,y", "a:b", " pad ", "é", "1"]).prop_map(|s| DataItem::Quoted(s.to_string())),
        3 => pick(&["abc", "hello", "x y", "A1", "é", "1a", "a.b", "-", "+", "1-2"]).prop_map(|s| DataItem::Bare(s.to_string())),
    ]
}

// ------------------------------------------------------------------ statements

fn print_stmt(cfg: GenCfg) -> BoxedStrategy<Stmt> {
    let item = prop_oneof![
        6 => num_expr(2, cfg.allow_rnd, cfg.error_weight / 3).prop_map(PrintItem::Expr),
        3 => str_atom().prop_map(PrintItem::Expr),
    ];
    (
        prop::collection::vec((item, prop::bool::weighted(0.3), prop::bool::weighted(0.3)), 0..4),
        0u32..8,
        0u32..10,
    )
        .prop_map(|(items, trail, lead)| {
            // `PRINT "i = " I`: items may be juxtaposed when that cannot be read as one
            // expression or one token, i.e. a string literal next to a literal or a variable
            let plain = |p: &PrintItem| matches!(p, PrintItem::Expr(Expr::Str(_)) | PrintItem::Expr(Expr::Var(_)) | PrintItem::Expr(Expr::Num(_)));
            let is_str = |p: &PrintItem| matches!(p, PrintItem::Expr(Expr::Str(_)));
            let juxtaposable: Vec<bool> = (0..items.len())
                .map(|i| i + 1 < items.len() && items[i].2 && plain(&items[i].0) && plain(&items[i + 1].0) && (is_str(&items[i].0) || is_str(&items[i + 1].0)))
                .collect();
            let items: Vec<(PrintItem, bool)> = items.into_iter().map(|(a, b, _)| (a, b)).collect();
            let mut v = vec![];
            if lead == 0 {
                v.push(PrintItem::Semi);
            } else if lead == 1 {
                v.push(PrintItem::Comma);
            }
            let n = items.len();
            for (i, (it, comma)) in items.into_iter().enumerate() {
                v.push(it);
                if i + 1 < n && !juxtaposable[i] {
                    v.push(if comma { PrintItem::Comma } else { PrintItem::Semi });
                }
            }
            match trail {
                0 => v.push(PrintItem::Semi),
                1 => v.push(PrintItem::Comma),
                2 if n > 0 => {
                    v.push(PrintItem::Semi);
                    v.push(PrintItem::Semi);
                }
                _ => {}
            }
            Stmt::Print(v)
        })
        .boxed()
}

fn let_stmt(cfg: GenCfg) -> BoxedStrategy<Stmt> {
    prop_oneof![
        6 => (lvalue_num(), num_expr(3, cfg.allow_rnd, cfg.error_weight / 3), prop::bool::weighted(0.2))
            .prop_map(|(target, value, with_let)| Stmt::Let { target, value, with_let }),
        3 => (lvalue_str(), str_atom(), prop::bool::weighted(0.2)).prop_map(|(target, value, with_let)| Stmt::Let { target, value, with_let }),
    ]
    .boxed()
}

fn read_stmt(cfg: GenCfg) -> BoxedStrategy<Stmt> {
    let _ = cfg;
    prop::collection::vec(prop_oneof![3 => lvalue_num(), 2 => lvalue_str()], 1..4).prop_map(Stmt::Read).boxed()
}

fn dim_stmt() -> BoxedStrategy<Stmt> {
    prop_oneof![
        10 => (0..NUM_ARRAYS.len() + STR_ARRAYS.len(), prop::collection::vec(0u32..13, 3)).prop_map(|(i, d)| {
            let (name, rank) = if i < NUM_ARRAYS.len() { NUM_ARRAYS[i] } else { STR_ARRAYS[i - NUM_ARRAYS.len()] };
            Stmt::Dim(name.to_string(), d[..rank].iter().map(|n| Expr::Num(*n as f64)).collect())
        }),
        1 => (0usize..BIG_DIMS.len())
            .prop_map(|i| Stmt::Dim("Q".into(), BIG_DIMS[i].iter().map(|n| Expr::Num(*n as f64)).collect())),
        1 => (pick(NUM_VARS), 0u32..4).prop_map(|(v, n)| Stmt::Dim("J".into(), vec![Expr::bin(BinOp::Add, Expr::var(v), Expr::Num(n as f64))])),
    ]
    .boxed()
}

/// A statement that fails at run time (or is at least suspicious).
fn failing_stmt() -> BoxedStrategy<Stmt> {
    prop_oneof![
        Just(Stmt::Next("Y9".into())),
        Just(Stmt::Return),
        Just(Stmt::Goto(LABEL_BASE - 7)),
        Just(Stmt::Gosub(LABEL_BASE - 7)),
        Just(Stmt::Let { target: LValue::Var("C".into()), value: Expr::Str("a".into()), with_let: false }),
        Just(Stmt::Let { target: LValue::Var("C$".into()), value: Expr::Num(1.0), with_let: false }),
        Just(Stmt::Let { target: LValue::Cell("VV$".into(), vec![Expr::Num(1.0)]), value: Expr::Num(1.0), with_let: false }),
        Just(Stmt::Print(vec![PrintItem::Expr(Expr::bin(BinOp::Div, Expr::Num(1.0), Expr::Num(0.0)))])),
        Just(Stmt::Print(vec![PrintItem::Expr(Expr::bin(BinOp::Add, Expr::Str("a".into()), Expr::Num(1.0)))])),
        Just(Stmt::Print(vec![PrintItem::Expr(Expr::Cell("VV".into(), vec![Expr::Num(11.0)]))])),
        Just(Stmt::Print(vec![PrintItem::Expr(Expr::Cell("VV".into(), vec![Expr::un(UnOp::Neg, Expr::Num(1.0))]))])),
        Just(Stmt::Print(vec![PrintItem::Expr(Expr::Cell("VV".into(), vec![Expr::Str("a".into())]))])),
        Just(Stmt::Print(vec![PrintItem::Expr(Expr::Cell("WW".into(), vec![Expr::Num(1.0)]))])),
        Just(Stmt::Dim("WW".into(), vec![Expr::Num(100.0), Expr::Num(100.0)])),
        Just(Stmt::Read(vec![LValue::Var("Q".into()), LValue::Var("V".into()), LValue::Var("W".into()), LValue::Var("Y".into())])),
        Just(Stmt::For { var: "C$".into(), from: Expr::Num(1.0), to: Expr::Num(2.0), step: None }),
        Just(Stmt::For { var: "C".into(), from: Expr::Str("a".into()), to: Expr::Num(2.0), step: None }),
        Just(Stmt::Next("C$".into())),
        Just(Stmt::Print(vec![PrintItem::Expr(Expr::Rnd(Box::new(Expr::un(UnOp::Neg, Expr::Num(1.0)))))])),
        Just(Stmt::Print(vec![PrintItem::Expr(Expr::Call("QQ".into(), vec![Expr::Str("a".into())]))])),
    ]
    .boxed()
}

/// A simple (non-IF, non-REM, non-DATA, non-DEF) statement usable anywhere,
/// including as the THEN statement of an IF with ELSE.
pub fn simple_stmt(cfg: GenCfg) -> BoxedStrategy<Stmt> {
    weighted(vec![
        (100, let_stmt(cfg)),
        (100, print_stmt(cfg)),
        (15, read_stmt(cfg)),
        (5, Just(Stmt::Restore).boxed()),
        (12, dim_stmt()),
        (cfg.error_weight, failing_stmt()),
        (if cfg.allow_input { 40 } else { 0 }, prop_oneof![lvalue_num(), lvalue_str()].prop_map(Stmt::Input).boxed()),
        (if cfg.allow_stop { 10 } else { 0 }, Just(Stmt::Stop).boxed()),
    ])
}

// ------------------------------------------------------------------ blocks

/// The recipe a program is built from. Jump targets are symbolic until layout.
#[derive(Debug, Clone, Serialize, Deserialize)]
pub enum Block {
    /// One line of simple statements.
    Simple(Vec<Stmt>),
    Rem(String),
    Data(Vec<DataItem>),
    Def(usize, Expr),
    For { var: usize, from: Expr, to: Expr, step: Option<Expr>, body: Vec<Block>, next_var: Option<usize>, tight: bool },
    /// `IF c THEN s1 [ELSE s2] [: rest]` on one line.
    IfLine { cond: Expr, then: Stmt, els: Option<Stmt>, rest: Vec<Stmt> },
    /// `IF a THEN s1 ELSE IF b THEN s2 ELSE s3`
    IfChain { a: Expr, s1: Stmt, b: Expr, s2: Stmt, s3: Option<Stmt> },
    /// `IF c THEN <line>` / `IF c THEN GOTO <line>` / `... ELSE <line>` jumping forward over `hops` lines.
    IfSkip { cond: Expr, hops: u8, form: u8, else_hops: Option<u8> },
    /// unconditional forward GOTO
    Skip { hops: u8 },
    /// counter-guarded backward jump: Zk = 0 / body / Zk = Zk + 1 : IF Zk < n THEN GOTO top
    CountLoop { n: u8, body: Vec<Block>, form: u8 },
    /// GOSUB to subroutine `sub` (modulo the number of subroutines), optionally inside IF.
    Gosub { sub: usize, wrap: u8, cond: Expr },
    /// ON-style dispatch is not in the language; FOR / GOSUB / INPUT / STOP as THEN statement with ELSE.
    SuspendingThen { cond: Expr, which: u8, els: Stmt },
    /// Recursion by GOSUB to depth n (32 is the cap).
    Recurse { n: u8 },
    End,
    /// A backward GOTO without any guard (may not terminate; run under budget).
    WildBack { hops: u8 },
    /// Nested loops where NEXT of the outer variable runs while the inner loop is open and a
    /// later pass bypasses the inner FOR but still reaches NEXT of the inner variable.
    StaleInner { outer: usize, inner: usize, n1: u8, n2: u8, from_pass: u8, variant: u8 },
}

#[derive(Debug, Clone, Serialize, Deserialize)]
pub struct Recipe {
    /// functions defined at the very start: (index into FUNCS, body)
    pub defs: Vec<(usize, Expr)>,
    pub main: Vec<Block>,
    pub subs: Vec<Vec<Block>>,
    /// whether each subroutine ends with RETURN (else it falls into the next)
    pub sub_returns: Vec<bool>,
    pub first_line: u64,
    pub step: u64,
    /// pack[i]: merge proto-line i+1 into proto-line i when legal
    pub pack: Vec<bool>,
    pub end_before_subs: bool,
}

fn for_header(cfg: GenCfg) -> impl Strategy<Value = (usize, Expr, Expr, Option<Expr>)> {
    let lit = |lo: i32, hi: i32| (lo..hi).prop_map(|n| if n < 0 { Expr::un(UnOp::Neg, Expr::Num(-n as f64)) } else { Expr::Num(n as f64) });
    let _ = cfg;
    prop_oneof![
        // ordinary counting loop
        8 => (0..FOR_VARS.len(), 0i32..4, 0i32..5, prop::option::weighted(0.3, pick(&[1.0f64, 2.0, 0.5, 3.0])))
            .prop_map(|(v, a, n, st)| (v, Expr::Num(a as f64), Expr::Num((a + n) as f64), st.map(Expr::Num))),
        // downward
        3 => (0..FOR_VARS.len(), 0i32..6, 0i32..4, pick(&[1.0f64, 2.0, 0.5]))
            .prop_map(|(v, a, n, st)| (v, Expr::Num((a + n) as f64), Expr::Num(a as f64), Some(Expr::un(UnOp::Neg, Expr::Num(st))))),
        // body runs once although the range is empty
        2 => (0..FOR_VARS.len(), 3i32..9, 0i32..3).prop_map(|(v, a, b)| (v, Expr::Num(a as f64), Expr::Num(b as f64), None)),
        // bounds are expressions (fixed at entry even if the variables change)
        2 => (0..FOR_VARS.len(), lit(-2, 3), pick(NUM_VARS), 0u32..4)
            .prop_map(|(v, a, w, n)| (v, a, Expr::bin(BinOp::Add, Expr::var(w), Expr::Num(n as f64)), None)),
        1 => (0..FOR_VARS.len(), pick(NUM_VARS), pick(NUM_VARS), pick(NUM_VARS))
            .prop_map(|(v, a, b, c)| (v, Expr::var(a), Expr::var(b), Some(Expr::var(c)))),
    ]
}

fn leaf_block(cfg: GenCfg) -> BoxedStrategy<Block> {
    let thenable = simple_stmt(cfg);
    weighted(vec![
        (14, prop::collection::vec(simple_stmt(cfg), 1..4).prop_map(Block::Simple).boxed()),
        (1, "[ -~]{0,12}".prop_map(Block::Rem).boxed()),
        (4, prop::collection::vec(data_item(), 1..8).prop_map(Block::Data).boxed()),
        (
            2,
            (0..FUNCS.len())
                .prop_flat_map(move |f| {
                    let body = if FUNCS[f].0.ends_with('$') { str_atom() } else { num_expr(3, cfg.allow_rnd, 2) };
                    body.prop_map(move |b| Block::Def(f, b))
                })
                .boxed(),
        ),
        (
            6,
            (
                cond_expr(cfg.allow_rnd, cfg.error_weight / 3),
                thenable.clone(),
                prop::option::weighted(0.6, else_stmt(cfg)),
                // the rest of the line may itself contain an IF (with or without ELSE)
                prop::collection::vec(
                    prop_oneof![
                        5 => simple_stmt(cfg),
                        1 => (cond_expr(false, 0), thenable.clone(), prop::option::weighted(0.7, thenable.clone()))
                            .prop_map(|(c, t, e)| Stmt::If { cond: c, then: Branch::Stmt(Box::new(t)), els: e.map(|e| Branch::Stmt(Box::new(e))) }),
                    ],
                    0..3,
                ),
            )
                .prop_map(|(cond, then, els, rest)| Block::IfLine { cond, then, els, rest })
                .boxed(),
        ),
        (
            2,
            (cond_expr(false, 0), thenable.clone(), cond_expr(false, 0), thenable.clone(), prop::option::weighted(0.7, thenable.clone()))
                .prop_map(|(a, s1, b, s2, s3)| Block::IfChain { a, s1, b, s2, s3 })
                .boxed(),
        ),
        (
            4,
            (cond_expr(cfg.allow_rnd, 0), 0u8..5, 0u8..4, prop::option::weighted(0.3, 0u8..5))
                .prop_map(|(cond, hops, form, else_hops)| Block::IfSkip { cond, hops, form, else_hops })
                .boxed(),
        ),
        (1, (0u8..4).prop_map(|hops| Block::Skip { hops }).boxed()),
        (4, (0usize..4, 0u8..4, cond_expr(false, 0)).prop_map(|(sub, wrap, cond)| Block::Gosub { sub, wrap, cond }).boxed()),
        (
            if cfg.allow_suspending_then_with_else { 2 } else { 0 },
            (cond_expr(false, 0), 0u8..8, simple_stmt(cfg))
                .prop_map(move |(cond, w, els)| {
                    let mut allowed = vec![0u8, 1, 4, 5];
                    if cfg.allow_input {
                        allowed.push(2);
                        allowed.push(6);
                    }
                    if cfg.allow_stop {
                        allowed.push(3);
                    }
                    let which = allowed[(w as usize) % allowed.len()];
                    Block::SuspendingThen { cond, which, els }
                })
                .boxed(),
        ),
        (1, pick(&[2u8, 5, 31, 32, 33, 40]).prop_map(|n| Block::Recurse { n }).boxed()),
        (1, Just(Block::End).boxed()),
        (if cfg.allow_wild { 1 } else { 0 }, (0u8..6).prop_map(|hops| Block::WildBack { hops }).boxed()),
        (
            2,
            (0..FOR_VARS.len(), 0..FOR_VARS.len(), 2u8..4, 1u8..4, 1u8..4, 0u8..4)
                .prop_map(|(outer, inner, n1, n2, from_pass, variant)| Block::StaleInner { outer, inner: if inner == outer { (inner + 1) % FOR_VARS.len() } else { inner }, n1, n2, from_pass, variant })
                .boxed(),
        ),
    ])
}

/// ELSE statements may be anything simple, a GOTO-like line number is added at layout.
fn else_stmt(cfg: GenCfg) -> BoxedStrategy<Stmt> {
    simple_stmt(cfg)
}

pub fn block(cfg: GenCfg) -> BoxedStrategy<Block> {
    leaf_block(cfg)
        .prop_recursive(3, 20, 4, move |inner| {
            prop_oneof![
                5 => (for_header(cfg), prop::collection::vec(inner.clone(), 0..4), prop::option::weighted(0.06, 0..FOR_VARS.len()), prop::bool::weighted(0.3))
                    .prop_map(|((var, from, to, step), body, next_var, tight)| Block::For { var, from, to, step, body, next_var, tight }),
                2 => (1u8..5, prop::collection::vec(inner.clone(), 0..3), 0u8..3).prop_map(|(n, body, form)| Block::CountLoop { n, body, form }),
            ]
        })
        .boxed()
}

pub fn recipe(cfg: GenCfg) -> BoxedStrategy<Recipe> {
    let def = |f: usize| {
        let body = if FUNCS[f].0.ends_with('$') { str_atom() } else { num_expr(3, cfg.allow_rnd, 1) };
        (prop::bool::weighted(0.85), body).prop_map(move |(on, b)| if on { Some((f, b)) } else { None })
    };
    (
        (def(0), def(1), def(2), def(3), 0u8..24).prop_map(|(a, b, c, d, rot)| {
            let mut v: Vec<(usize, Expr)> = [a, b, c, d].into_iter().flatten().collect();
            if !v.is_empty() {
                let k = (rot as usize) % v.len();
                v.rotate_left(k);
            }
            v
        }),
        prop::collection::vec(block(cfg), 1..cfg.max_blocks),
        prop::collection::vec(prop::collection::vec(block(cfg), 0..4), 0..4),
        prop::collection::vec(prop::bool::weighted(0.9), 4),
        pick(&[0u64, 1, 5, 10, 10, 10, 100, 1000, 65535, 4294967296]),
        pick(&[1u64, 2, 5, 10, 10, 10, 100]),
        prop::collection::vec(prop::bool::weighted(0.25), 64),
        prop::bool::weighted(0.9),
    )
        .prop_map(|(defs, main, subs, sub_returns, first_line, step, pack, end_before_subs)| Recipe {
            defs,
            main,
            subs,
            sub_returns,
            first_line,
            step,
            pack,
            end_before_subs,
        })
        .boxed()
}

// ------------------------------------------------------------------ layout

#[derive(Debug, Clone)]
struct PLine {
    /// label id this line carries (jump target), if any
    label: Option<u64>,
    stmts: Vec<Stmt>,
    /// may following lines be merged into this one?
    open: bool,
    /// pending forward reference: (statement index, hops) resolved against the region
    region: usize,
}

struct Layout {
    lines: Vec<PLine>,
    next_label: u64,
    next_counter: u32,
    region: usize,
    /// (line index, hops, label) : label must be attached `hops` lines after `line index` within the region
    fwd: Vec<(usize, u8, u64)>,
    /// (line index, hops, label) backward
    back: Vec<(usize, u8, u64)>,
    sub_labels: Vec<u64>,
    recurse_subs: Vec<(u64, u8, u32)>,
}

fn lbl(id: u64) -> u64 {
    LABEL_BASE + id
}

impl Layout {
    fn new_label(&mut self) -> u64 {
        self.next_label += 1;
        self.next_label
    }
    fn push(&mut self, stmts: Vec<Stmt>, open: bool) -> usize {
        self.lines.push(PLine { label: None, stmts, open, region: self.region });
        self.lines.len() - 1
    }
    fn push_labeled(&mut self, label: u64, stmts: Vec<Stmt>, open: bool) -> usize {
        self.lines.push(PLine { label: Some(label), stmts, open, region: self.region });
        self.lines.len() - 1
    }

    fn blocks(&mut self, bs: &[Block]) {
        for b in bs {
            self.block(b);
        }
    }

    fn block(&mut self, b: &Block) {
        match b {
            Block::Simple(stmts) => {
                self.push(stmts.clone(), true);
            }
            Block::Rem(t) => {
                self.push(vec![Stmt::Rem(t.clone())], false);
            }
            Block::Data(items) => {
                self.push(vec![Stmt::Data(items.clone())], true);
            }
            Block::Def(f, body) => {
                let (name, params) = FUNCS[*f];
                self.push(
                    vec![Stmt::Def { name: name.to_string(), params: params.iter().map(|p| p.to_string()).collect(), body: body.clone() }],
                    true,
                );
            }
            Block::For { var, from, to, step, body, next_var, tight } => {
                let v = FOR_VARS[*var].to_string();
                let nv = next_var.map(|i| FOR_VARS[i].to_string()).unwrap_or_else(|| v.clone());
                let header = Stmt::For { var: v, from: from.clone(), to: to.clone(), step: step.clone() };
                if *tight && body.iter().all(|b| matches!(b, Block::Simple(_))) {
                    // everything on one line: FOR .. : body : NEXT v
                    let mut stmts = vec![header];
                    for b in body {
                        if let Block::Simple(s) = b {
                            stmts.extend(s.clone());
                        }
                    }
                    stmts.push(Stmt::Next(nv));
                    self.push(stmts, true);
                } else {
                    self.push(vec![header], true);
                    self.blocks(body);
                    self.push(vec![Stmt::Next(nv)], true);
                }
            }
            Block::IfLine { cond, then, els, rest } => {
                let mut stmts = vec![Stmt::If {
                    cond: cond.clone(),
                    then: Branch::Stmt(Box::new(then.clone())),
                    els: els.clone().map(|e| Branch::Stmt(Box::new(e))),
                }];
                stmts.extend(rest.clone());
                // nothing may be merged after an IF line: it would become conditional
                self.push(stmts, false);
            }
            Block::IfChain { a, s1, b, s2, s3 } => {
                let inner = Stmt::If {
                    cond: b.clone(),
                    then: Branch::Stmt(Box::new(s2.clone())),
                    els: s3.clone().map(|e| Branch::Stmt(Box::new(e))),
                };
                self.push(
                    vec![Stmt::If { cond: a.clone(), then: Branch::Stmt(Box::new(s1.clone())), els: Some(Branch::Stmt(Box::new(inner))) }],
                    false,
                );
            }
            Block::IfSkip { cond, hops, form, else_hops } => {
                let l = self.new_label();
                let then = match form % 2 {
                    0 => Branch::Line(lbl(l)),
                    _ => Branch::Stmt(Box::new(Stmt::Goto(lbl(l)))),
                };
                let els = else_hops.map(|h| {
                    let l2 = self.new_label();
                    (h, l2)
                });
                let stmt = Stmt::If {
                    cond: cond.clone(),
                    then,
                    els: els.map(|(_, l2)| if form / 2 == 0 { Branch::Line(lbl(l2)) } else { Branch::Stmt(Box::new(Stmt::Goto(lbl(l2)))) }),
                };
                let at = self.push(vec![stmt], false);
                self.fwd.push((at, *hops, l));
                if let Some((h, l2)) = els {
                    self.fwd.push((at, h, l2));
                }
            }
            Block::Skip { hops } => {
                let l = self.new_label();
                let at = self.push(vec![Stmt::Goto(lbl(l))], false);
                self.fwd.push((at, *hops, l));
            }
            Block::CountLoop { n, body, form } => {
                self.next_counter += 1;
                let z = format!("Z{}", self.next_counter);
                let top = self.new_label();
                self.push(
                    vec![Stmt::Let { target: LValue::Var(z.clone()), value: Expr::Num(0.0), with_let: false }],
                    false,
                );
                let body_start = self.lines.len();
                self.blocks(body);
                let inc = Stmt::Let {
                    target: LValue::Var(z.clone()),
                    value: Expr::bin(BinOp::Add, Expr::var(&z), Expr::Num(1.0)),
                    with_let: false,
                };
                let cond = Expr::bin(BinOp::Lt, Expr::var(&z), Expr::Num(*n as f64));
                let back = match form % 3 {
                    0 => Stmt::If { cond, then: Branch::Line(lbl(top)), els: None },
                    1 => Stmt::If { cond, then: Branch::Stmt(Box::new(Stmt::Goto(lbl(top)))), els: None },
                    _ => Stmt::If {
                        cond: Expr::bin(BinOp::Ge, Expr::var(&z), Expr::Num(*n as f64)),
                        then: Branch::Stmt(Box::new(Stmt::Let { target: LValue::Var(z.clone()), value: Expr::var(&z), with_let: false })),
                        els: Some(Branch::Line(lbl(top))),
                    },
                };
                if self.lines.len() == body_start {
                    self.push_labeled(top, vec![inc, back], false);
                } else {
                    // label goes on the first body line
                    if self.lines[body_start].label.is_none() {
                        self.lines[body_start].label = Some(top);
                    } else {
                        // already a jump target: insert a separate labeled line
                        self.lines.insert(body_start, PLine { label: Some(top), stmts: vec![Stmt::Empty], open: false, region: self.region });
                        for f in self.fwd.iter_mut().chain(self.back.iter_mut()) {
                            if f.0 >= body_start {
                                f.0 += 1;
                            }
                        }
                    }
                    self.push(vec![inc, back], false);
                }
            }
            Block::Gosub { sub, wrap, cond } => {
                if self.sub_labels.is_empty() {
                    self.push(vec![Stmt::Empty], true);
                    return;
                }
                let target = lbl(self.sub_labels[*sub % self.sub_labels.len()]);
                let g = Stmt::Gosub(target);
                match wrap {
                    0 | 1 => {
                        self.push(vec![g], true);
                    }
                    2 => {
                        self.push(vec![Stmt::If { cond: cond.clone(), then: Branch::Stmt(Box::new(g)), els: None }], false);
                    }
                    _ => {
                        self.push(
                            vec![Stmt::If {
                                cond: cond.clone(),
                                then: Branch::Stmt(Box::new(Stmt::Print(vec![PrintItem::Expr(Expr::Str("t".into()))]))),
                                els: Some(Branch::Stmt(Box::new(g))),
                            }],
                            false,
                        );
                    }
                }
            }
            Block::SuspendingThen { cond, which, els } => {
                let v = FOR_VARS[(*which as usize) % FOR_VARS.len()].to_string();
                let (then, closer): (Stmt, Option<Stmt>) = match which % 4 {
                    0 if !self.sub_labels.is_empty() => (Stmt::Gosub(lbl(self.sub_labels[0])), None),
                    1 => (
                        Stmt::For { var: v.clone(), from: Expr::Num(1.0), to: Expr::Num(2.0), step: None },
                        Some(Stmt::Next(v.clone())),
                    ),
                    2 => (Stmt::Input(LValue::Var("Q".into())), None),
                    3 => (Stmt::Stop, None),
                    _ => (Stmt::Print(vec![]), None),
                };
                self.push(
                    vec![Stmt::If { cond: cond.clone(), then: Branch::Stmt(Box::new(then)), els: Some(Branch::Stmt(Box::new(els.clone()))) }],
                    false,
                );
                if let Some(c) = closer {
                    // the NEXT is guarded so that it only runs when the FOR did
                    self.push(vec![Stmt::If { cond: cond.clone(), then: Branch::Stmt(Box::new(c)), els: None }], false);
                }
            }
            Block::Recurse { n } => {
                self.next_counter += 1;
                let l = self.new_label();
                self.recurse_subs.push((l, *n, self.next_counter));
                let z = format!("Z{}", self.next_counter);
                self.push(
                    vec![Stmt::Let { target: LValue::Var(z), value: Expr::Num(0.0), with_let: false }, Stmt::Gosub(lbl(l))],
                    true,
                );
            }
            Block::End => {
                self.push(vec![Stmt::End], false);
            }
            Block::WildBack { hops } => {
                let l = self.new_label();
                let at = self.push(vec![Stmt::Goto(lbl(l))], false);
                self.back.push((at, *hops, l));
            }
            Block::StaleInner { outer, inner, n1, n2, from_pass, variant } => {
                let a = FOR_VARS[*outer].to_string();
                let b = FOR_VARS[*inner].to_string();
                let skip = self.new_label();
                let show = |x: &str, y: &str| Stmt::Print(vec![PrintItem::Expr(Expr::var(x)), PrintItem::Semi, PrintItem::Expr(Expr::Str(",".into())), PrintItem::Semi, PrintItem::Expr(Expr::var(y))]);
                self.push(vec![Stmt::For { var: a.clone(), from: Expr::Num(1.0), to: Expr::Num(*n1 as f64), step: None }], false);
                self.push(
                    vec![Stmt::If { cond: Expr::bin(BinOp::Ge, Expr::var(&a), Expr::Num(*from_pass as f64 + 1.0)), then: Branch::Line(lbl(skip)), els: None }],
                    false,
                );
                self.push(vec![Stmt::For { var: b.clone(), from: Expr::Num(1.0), to: Expr::Num(*n2 as f64), step: None }], false);
                self.push(vec![show(&a, &b)], false);
                match variant % 4 {
                    // NEXT of the outer variable while the inner loop is open
                    0 => {
                        self.push(vec![Stmt::Next(a.clone())], false);
                    }
                    // ... only on some passes
                    1 => {
                        self.push(vec![Stmt::If { cond: Expr::bin(BinOp::Lt, Expr::var(&a), Expr::Num(*n1 as f64)), then: Branch::Stmt(Box::new(Stmt::Next(a.clone()))), els: None }], false);
                    }
                    // ... or re-entering the outer FOR's line is avoided by jumping to a shared NEXT
                    2 => {
                        self.push(vec![Stmt::Next(a.clone()), Stmt::Print(vec![PrintItem::Expr(Expr::Str("out".into()))])], false);
                    }
                    _ => {
                        self.push(vec![Stmt::Next(b.clone())], false);
                        self.push(vec![Stmt::Next(a.clone())], false);
                    }
                }
                self.push_labeled(skip, vec![show(&b, &a)], false);
                self.push(vec![Stmt::Next(b.clone())], false);
                if variant % 2 == 0 {
                    self.push(vec![Stmt::Next(a)], false);
                }
            }
        }
    }
}

fn relabel(s: &mut Stmt, map: &std::collections::HashMap<u64, u64>, undefined: u64) {
    let fix = |n: &mut u64| {
        if *n >= LABEL_BASE - 100 {
            *n = if *n >= LABEL_BASE { *map.get(&(*n - LABEL_BASE)).unwrap_or(&undefined) } else { undefined };
        }
    };
    match s {
        Stmt::Goto(n) | Stmt::Gosub(n) => fix(n),
        Stmt::If { then, els, .. } => {
            match then {
                Branch::Line(n) => fix(n),
                Branch::Stmt(st) => relabel(st, map, undefined),
            }
            match els {
                Some(Branch::Line(n)) => fix(n),
                Some(Branch::Stmt(st)) => relabel(st, map, undefined),
                None => {}
            }
        }
        _ => {}
    }
}

/// Turns a recipe into a concrete program.
pub fn layout(r: &Recipe) -> Program {
    let mut lay = Layout {
        lines: vec![],
        next_label: 0,
        next_counter: 0,
        region: 0,
        fwd: vec![],
        back: vec![],
        sub_labels: vec![],
        recurse_subs: vec![],
    };
    for _ in &r.subs {
        let l = lay.new_label();
        lay.sub_labels.push(l);
    }
    for (f, body) in &r.defs {
        lay.block(&Block::Def(*f, body.clone()));
    }
    lay.blocks(&r.main);
    if r.end_before_subs || !r.subs.is_empty() {
        lay.push(vec![Stmt::End], false);
    }
    for (i, sub) in r.subs.iter().enumerate() {
        lay.region = i + 1;
        let start = lay.lines.len();
        lay.blocks(sub);
        let l = lay.sub_labels[i];
        if lay.lines.len() == start {
            lay.push_labeled(l, vec![Stmt::Empty], true);
        } else if lay.lines[start].label.is_none() {
            lay.lines[start].label = Some(l);
        } else {
            lay.lines.insert(start, PLine { label: Some(l), stmts: vec![Stmt::Empty], open: false, region: lay.region });
            for f in lay.fwd.iter_mut().chain(lay.back.iter_mut()) {
                if f.0 >= start {
                    f.0 += 1;
                }
            }
        }
        if *r.sub_returns.get(i).unwrap_or(&true) {
            lay.push(vec![Stmt::Return], false);
        }
    }
    // recursion helpers
    let rs = std::mem::take(&mut lay.recurse_subs);
    for (k, (l, n, zi)) in rs.into_iter().enumerate() {
        lay.region = 100 + k;
        let z = format!("Z{}", zi);
        lay.push_labeled(
            l,
            vec![
                Stmt::Let { target: LValue::Var(z.clone()), value: Expr::bin(BinOp::Add, Expr::var(&z), Expr::Num(1.0)), with_let: false },
                Stmt::If {
                    cond: Expr::bin(BinOp::Lt, Expr::var(&z), Expr::Num(n as f64)),
                    then: Branch::Stmt(Box::new(Stmt::Gosub(lbl(l)))),
                    els: None,
                },
            ],
            false,
        );
        lay.push(vec![Stmt::Return], false);
    }
    // resolve forward / backward hop references: attach labels to lines of the same region
    let n = lay.lines.len();
    let fwd = std::mem::take(&mut lay.fwd);
    let mut extra_targets: Vec<(usize, u64)> = vec![];
    for (at, hops, label) in fwd {
        let region = lay.lines[at].region;
        let mut t = at + 1 + hops as usize;
        // stay inside the region
        while t >= n || lay.lines[t].region != region {
            if t == at + 1 || t == 0 {
                break;
            }
            t -= 1;
        }
        if t >= n || t <= at || lay.lines[t].region != region {
            // no later line in this region: jump to own line's successor is impossible -> fall to next line label
            extra_targets.push((usize::MAX, label));
        } else {
            extra_targets.push((t, label));
        }
    }
    let back = std::mem::take(&mut lay.back);
    for (at, hops, label) in back {
        let region = lay.lines[at].region;
        let mut t = at.saturating_sub(hops as usize);
        while t < at && lay.lines[t].region != region {
            t += 1;
        }
        extra_targets.push((t, label));
    }
    // pack lines
    let mut merged: Vec<PLine> = vec![];
    let mut alias: std::collections::HashMap<u64, usize> = std::collections::HashMap::new(); // label -> merged index
    let mut orig_to_merged: Vec<usize> = vec![0; n];
    let targeted: std::collections::HashSet<usize> = extra_targets.iter().map(|(t, _)| *t).collect();
    for (i, pl) in lay.lines.iter().enumerate() {
        let can_merge = i > 0
            && pl.label.is_none()
            && !targeted.contains(&i)
            && merged.last().map(|m: &PLine| m.open && m.region == pl.region).unwrap_or(false)
            && *r.pack.get(i % r.pack.len().max(1)).unwrap_or(&false)
            && merged.last().map(|m| m.stmts.len() + pl.stmts.len() <= 8).unwrap_or(false);
        if can_merge {
            let m = merged.last_mut().unwrap();
            m.stmts.extend(pl.stmts.clone());
            m.open = pl.open;
        } else {
            merged.push(pl.clone());
        }
        orig_to_merged[i] = merged.len() - 1;
        if let Some(l) = pl.label {
            alias.insert(l, merged.len() - 1);
        }
    }
    for (t, label) in &extra_targets {
        if *t != usize::MAX {
            alias.insert(*label, orig_to_merged[*t]);
        }
    }
    // number the lines
    let mut map = std::collections::HashMap::new();
    let number_of = |idx: usize| r.first_line + (idx as u64) * r.step;
    for (label, idx) in &alias {
        map.insert(*label, number_of(*idx));
    }
    let undefined = number_of(merged.len()) + 7;
    let mut lines = vec![];
    for (i, pl) in merged.into_iter().enumerate() {
        let mut stmts = pl.stmts;
        if stmts.iter().all(|s| matches!(s, Stmt::Empty)) && stmts.len() <= 1 {
            // a line without any token cannot be stored
            stmts = vec![Stmt::Rem(String::new())];
        }
        for s in stmts.iter_mut() {
            relabel(s, &map, undefined);
        }
        lines.push(Line { number: number_of(i), stmts });
    }
    Program { lines }
}

/// Programs whose DEF statements all come first, each function defined at most once.
pub fn program_defs_first(cfg: GenCfg) -> BoxedStrategy<Program> {
    recipe(cfg)
        .prop_map(|mut r| {
            fn strip(bs: &mut Vec<Block>) {
                bs.retain(|b| !matches!(b, Block::Def(..)));
                for b in bs.iter_mut() {
                    match b {
                        Block::For { body, .. } | Block::CountLoop { body, .. } => strip(body),
                        _ => {}
                    }
                }
            }
            strip(&mut r.main);
            for s in r.subs.iter_mut() {
                strip(s);
            }
            // never merge a DEF line with what follows (the body would swallow nothing, but keep DEF lines pure)
            let n = r.defs.len();
            for i in 0..n.min(r.pack.len()) {
                r.pack[i] = false;
            }
            if n < r.pack.len() {
                r.pack[n] = false;
            }
            layout(&r)
        })
        .boxed()
}

/// Any single statement, including IF forms, jumps to line 10 itself, FOR / NEXT, DATA, DEF.
pub fn any_stmt(cfg: GenCfg) -> BoxedStrategy<Stmt> {
    let thenable = simple_stmt(cfg);
    weighted(vec![
        (20, simple_stmt(cfg)),
        (
            4,
            (cond_expr(cfg.allow_rnd, cfg.error_weight), thenable.clone(), prop::option::weighted(0.5, thenable.clone()))
                .prop_map(|(cond, then, els)| Stmt::If { cond, then: Branch::Stmt(Box::new(then)), els: els.map(|e| Branch::Stmt(Box::new(e))) })
                .boxed(),
        ),
        (1, (cond_expr(false, 0), any::<bool>()).prop_map(|(cond, e)| Stmt::If { cond, then: Branch::Line(10), els: if e { Some(Branch::Line(10)) } else { None } }).boxed()),
        (1, Just(Stmt::Goto(10)).boxed()),
        (1, Just(Stmt::Gosub(10)).boxed()),
        (1, Just(Stmt::Goto(20)).boxed()),
        (1, Just(Stmt::Return).boxed()),
        (1, Just(Stmt::End).boxed()),
        (3, for_header(cfg).prop_map(|(v, from, to, step)| Stmt::For { var: FOR_VARS[v].to_string(), from, to, step }).boxed()),
        (1, (num_expr(1, false, cfg.error_weight), str_atom()).prop_map(|(from, to)| Stmt::For { var: "C".into(), from, to, step: None }).boxed()),
        (2, pick(FOR_VARS).prop_map(|v| Stmt::Next(v.to_string())).boxed()),
        (1, pick(STR_VARS).prop_map(|v| Stmt::Next(v.to_string())).boxed()),
        (2, prop::collection::vec(data_item(), 1..4).prop_map(Stmt::Data).boxed()),
        (
            2,
            (0..FUNCS.len(), num_expr(2, false, cfg.error_weight), str_atom(), any::<bool>())
                .prop_map(|(f, nb, sb, swap)| {
                    let (name, params) = FUNCS[f];
                    let body = if name.ends_with('$') != swap { sb } else { nb };
                    Stmt::Def { name: name.to_string(), params: params.iter().map(|p| p.to_string()).collect(), body }
                })
                .boxed(),
        ),
        (1, "[ -~]{0,10}".prop_map(Stmt::Rem).boxed()),
    ])
}

/// Programs without any DEF statement (user-function names then read as arrays).
pub fn program_without_defs(cfg: GenCfg) -> BoxedStrategy<Program> {
    recipe(cfg)
        .prop_map(|mut r| {
            fn strip(bs: &mut Vec<Block>) {
                bs.retain(|b| !matches!(b, Block::Def(..)));
                for b in bs.iter_mut() {
                    match b {
                        Block::For { body, .. } | Block::CountLoop { body, .. } => strip(body),
                        _ => {}
                    }
                }
            }
            r.defs.clear();
            strip(&mut r.main);
            for s in r.subs.iter_mut() {
                strip(s);
            }
            layout(&r)
        })
        .boxed()
}

pub fn program(cfg: GenCfg) -> BoxedStrategy<Program> {
    recipe(cfg).prop_map(|r| layout(&r)).boxed()
}

pub fn style() -> impl Strategy<Value = Style> {
    (0u8..3, 0u8..3, any::<bool>(), 0u8..2, any::<u64>()).prop_map(|(spacing, case, question_mark, redundant_parens, salt)| Style {
        spacing,
        case,
        question_mark,
        redundant_parens,
        salt,
    })
}
