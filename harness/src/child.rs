//! Child-process entry points (cases that may exhaust the native stack are
//! executed in a separate process on a default-sized main thread and judged
//! by exit status).

pub fn main(args: &[String]) -> i32 {
    match args.first().map(|s| s.as_str()) {
        Some("nest") if args.len() >= 4 => {
            let depth: usize = args[2].parse().unwrap_or(0);
            crate::props::c01::child_nest(&args[1], depth, &args[3])
        }
        _ => 3,
    }
}
