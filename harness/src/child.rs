//! Child-process entry points (cases that may exhaust the native stack are
//! executed in a separate process on a default-sized main thread and judged
//! by exit status).

pub fn main(_args: &[String]) -> i32 {
    3
}
