//! Child-process entry points (cases that may exhaust the native stack are
//! executed in a separate process on a default-sized main thread and judged
//! by exit status).

pub fn main(args: &[String]) -> i32 {
    match args.first().map(|s| s.as_str()) {
        Some("nest") if args.len() >= 4 => {
            let depth: usize = args[2].parse().unwrap_or(0);
            crate::props::c01::child_nest(&args[1], depth, &args[3])
        }
        // debugging aid: enter the lines of a file, RUN (replies "0"), print the transcript's end
        Some("runlines") if args.len() >= 2 => {
            crate::core::install_quiet_panic_hook();
            let text = std::fs::read_to_string(&args[1]).unwrap_or_default();
            let lines: Vec<String> = text.lines().map(|l| l.to_string()).collect();
            match crate::run::load_and_run(&lines, 0, &[], 5000, &mut crate::run::NoHost) {
                Ok(Ok((_, t))) => {
                    println!("{:?} calls={} printed={:?}", t.end, t.calls, t.printed());
                    0
                }
                other => {
                    println!("{:?}", other.map(|_| ()).map_err(|c| c.0));
                    1
                }
            }
        }
        _ => 3,
    }
}
