//! Reference interpreter ("the model"), written from the documented
//! semantics over the *structured* program. It never sees text or tokens and
//! shares no code with abasic-core.

use crate::ast::*;
use crate::sess::ErrKind;
use std::collections::{BTreeMap, HashMap};

#[derive(Debug, Clone, PartialEq)]
pub enum V {
    N(f64),
    S(String),
}

impl V {
    pub fn truthy(&self) -> bool {
        match self {
            V::N(n) => *n != 0.0,
            V::S(s) => !s.is_empty(),
        }
    }
    pub fn show(&self) -> String {
        match self {
            V::N(n) => format!("{}", n),
            V::S(s) => s.clone(),
        }
    }
    pub fn is_str(&self) -> bool {
        matches!(self, V::S(_))
    }
}

pub fn is_str_name(name: &str) -> bool {
    name.ends_with('$')
}

fn default_for(name: &str) -> V {
    if is_str_name(name) {
        V::S(String::new())
    } else {
        V::N(0.0)
    }
}

fn bool_v(b: bool) -> V {
    V::N(if b { 1.0 } else { 0.0 })
}

#[derive(Debug, Clone, PartialEq)]
pub enum Event {
    Trace(u64),
    Print(String),
    Warning(String, Option<u64>),
    InputRequest,
    Reenter,
    ExtraIgnored,
    Break(Option<u64>),
    Error(ErrKind, Option<u64>),
    End,
}

/// A position in the program: line index, top-level statement index.
#[derive(Debug, Clone, Copy, PartialEq)]
pub struct Pos {
    pub line: usize,
    pub stmt: usize,
}

#[derive(Debug, Clone)]
struct Frame {
    /// None for function-call frames.
    ret: Option<Pos>,
    vars: BTreeMap<String, V>,
}

#[derive(Debug, Clone)]
struct Loop {
    var: String,
    to: f64,
    step: f64,
    resume: Pos,
}

#[derive(Debug, Clone)]
struct Array {
    dims: Vec<usize>,
    cells: Vec<V>,
}

#[derive(Debug, Clone)]
struct FuncDef {
    params: Vec<String>,
    body: Expr,
    line: u64,
}

#[derive(Debug, Clone, Copy, PartialEq)]
pub enum Status {
    /// More statements to run.
    Running,
    /// Waiting for a reply to the INPUT at `pending_input`.
    AwaitingInput,
    /// Stopped by STOP (resumable).
    Stopped,
    /// Finished (END / end of program / error).
    Done,
}

pub const STACK_CAP: usize = 32;
pub const ARRAY_CAP: usize = 10000;

type R<T> = Result<T, ErrKind>;

pub struct Model<'p> {
    pub prog: &'p Program,
    pub vars: BTreeMap<String, V>,
    arrays: BTreeMap<String, Array>,
    funcs: HashMap<String, FuncDef>,
    frames: Vec<Frame>,
    loops: Vec<Loop>,
    data: Vec<(DataItem, u64)>,
    data_pos: usize,
    pub rng_state: u64,
    pub events: Vec<Event>,
    pub status: Status,
    pos: Pos,
    /// Set while an INPUT statement waits for its reply: the statement, the
    /// top-level position it belongs to, and where execution goes on afterwards.
    pending_input: Option<(&'p Stmt, Pos, Pos)>,
    stop_resume: Option<Pos>,
    /// Line number attributed to errors / warnings at the moment.
    cur_line: Option<u64>,
    pub warnings: bool,
    pub tracing: bool,
    /// Number of top-level statements started (IF + its selected statement = 1).
    pub stmts_executed: u64,
    /// Statement entries including nested THEN / ELSE statements.
    pub entries: u64,
    pub max_stack: usize,
    pub max_loops: usize,
    pub max_array_cells: usize,
    pub rejected_writes: u64,
    /// OUT OF MEMORY was raised by a function call while function frames were
    /// already on the stack (runaway recursion through DEF). The implementation
    /// also caps expression nesting, so where exactly such a recursion is cut
    /// off (and hence the line blamed) is not specified.
    pub runaway_function_recursion: bool,
    pub features: std::collections::BTreeSet<&'static str>,
}

enum Flow {
    /// Continue with the next statement of the line.
    Next,
    /// Control was transferred (pos already set).
    Jumped,
    /// Drop the rest of the line.
    DropLine,
    /// Program ended.
    End,
    /// STOP.
    Stop,
    /// INPUT needs a reply.
    NeedInput,
}

impl<'p> Model<'p> {
    pub fn new(prog: &'p Program, seed: u64) -> Model<'p> {
        let mut data = vec![];
        for l in &prog.lines {
            for s in &l.stmts {
                // DATA is collected wherever the statement sits, also inside IF arms,
                // in token order.
                s.walk(&mut |st| {
                    if let Stmt::Data(items) = st {
                        for it in items {
                            data.push((it.clone(), l.number));
                        }
                    }
                });
            }
        }
        Model {
            prog,
            vars: BTreeMap::new(),
            arrays: BTreeMap::new(),
            funcs: HashMap::new(),
            frames: vec![],
            loops: vec![],
            data,
            data_pos: 0,
            rng_state: seed,
            events: vec![],
            status: if prog.lines.is_empty() { Status::Done } else { Status::Running },
            pos: Pos { line: 0, stmt: 0 },
            pending_input: None,
            stop_resume: None,
            cur_line: None,
            warnings: false,
            tracing: false,
            stmts_executed: 0,
            entries: 0,
            max_stack: 0,
            max_loops: 0,
            max_array_cells: 0,
            rejected_writes: 0,
            runaway_function_recursion: false,
            features: Default::default(),
        }
    }

    // ------------------------------------------------------------ expressions

    fn warn(&mut self, msg: String) {
        if self.warnings {
            self.events.push(Event::Warning(msg, self.cur_line));
        }
    }

    fn lookup_var(&mut self, name: &str) -> V {
        for f in self.frames.iter().rev() {
            if let Some(v) = f.vars.get(name) {
                return v.clone();
            }
        }
        match self.vars.get(name) {
            Some(v) => v.clone(),
            None => {
                self.warn(format!("Use of undeclared variable '{}'.", name));
                default_for(name)
            }
        }
    }

    fn eval_index(&mut self, idx: &[Expr]) -> R<Vec<usize>> {
        let mut out = vec![];
        for e in idx {
            let V::N(n) = self.eval(e)? else {
                return Err(ErrKind::TypeMismatch);
            };
            // truncation toward zero (saturating), negatives are illegal
            let t = n as i64;
            if t < 0 {
                return Err(ErrKind::IllegalQuantity);
            }
            out.push(t as usize);
        }
        Ok(out)
    }

    fn make_array(name: &str, max_indices: &[usize]) -> R<Array> {
        if max_indices.is_empty() {
            return Err(ErrKind::BadSubscript);
        }
        let mut total: u128 = 1;
        let mut dims = vec![];
        for &m in max_indices {
            let size = (m as u128) + 1;
            total = total.saturating_mul(size);
            if total > ARRAY_CAP as u128 {
                return Err(ErrKind::ArrayTooLarge);
            }
            dims.push(size as usize);
        }
        Ok(Array { dims, cells: vec![default_for(name); total as usize] })
    }

    fn ensure_array(&mut self, name: &str, rank: usize) -> R<()> {
        if !self.arrays.contains_key(name) {
            let a = Self::make_array(name, &vec![10; rank])?;
            self.max_array_cells = self.max_array_cells.max(a.cells.len());
            self.arrays.insert(name.to_string(), a);
        }
        Ok(())
    }

    fn linear(a: &Array, idx: &[usize]) -> R<usize> {
        if idx.len() != a.dims.len() {
            return Err(ErrKind::BadSubscript);
        }
        let mut lin = 0usize;
        let mut stride = 1usize;
        for (i, d) in idx.iter().zip(&a.dims) {
            if i >= d {
                return Err(ErrKind::BadSubscript);
            }
            lin += i * stride;
            stride *= d;
        }
        Ok(lin)
    }

    fn cell_get(&mut self, name: &str, idx: &[usize]) -> R<V> {
        if !self.arrays.contains_key(name) {
            self.warn(format!("Use of undeclared array '{}'.", name));
        }
        self.ensure_array(name, idx.len())?;
        let a = &self.arrays[name];
        let lin = Self::linear(a, idx)?;
        Ok(a.cells[lin].clone())
    }

    fn cell_set(&mut self, name: &str, idx: &[usize], v: V) -> R<()> {
        if !self.arrays.contains_key(name) {
            self.warn(format!("Use of undeclared array '{}'.", name));
        }
        if v.is_str() != is_str_name(name) {
            self.rejected_writes += 1;
            return Err(ErrKind::TypeMismatch);
        }
        self.ensure_array(name, idx.len())?;
        let a = self.arrays.get_mut(name).unwrap();
        let lin = Self::linear(a, idx)?;
        a.cells[lin] = v;
        Ok(())
    }

    fn var_set(&mut self, name: &str, v: V) -> R<()> {
        if v.is_str() != is_str_name(name) {
            self.rejected_writes += 1;
            return Err(ErrKind::TypeMismatch);
        }
        self.vars.insert(name.to_string(), v);
        Ok(())
    }

    fn num(v: V) -> R<f64> {
        match v {
            V::N(n) => Ok(n),
            V::S(_) => Err(ErrKind::TypeMismatch),
        }
    }

    pub fn rnd(&mut self, x: f64) -> R<f64> {
        if x < 0.0 {
            Err(ErrKind::Unimplemented)
        } else if x == 0.0 {
            Ok(((self.rng_state % (1u64 << 33)) as f64) / 8589934592.0)
        } else {
            let s = ((1664525u128 * (self.rng_state as u128) + 1013904223u128) % (1u128 << 33)) as u64;
            self.rng_state = s;
            Ok((s as f64) / 8589934592.0)
        }
    }

    pub fn eval(&mut self, e: &Expr) -> R<V> {
        match e {
            Expr::Num(n) => Ok(V::N(*n)),
            Expr::Str(s) => Ok(V::S(s.clone())),
            Expr::Var(n) => Ok(self.lookup_var(n)),
            Expr::Paren(a) => self.eval(a),
            Expr::Abs(a) => {
                let n = Self::num(self.eval(a)?)?;
                Ok(V::N(n.abs()))
            }
            Expr::Int(a) => {
                let n = Self::num(self.eval(a)?)?;
                Ok(V::N(n.floor()))
            }
            Expr::Rnd(a) => {
                let n = Self::num(self.eval(a)?)?;
                Ok(V::N(self.rnd(n)?))
            }
            Expr::Cell(name, idx) | Expr::Call(name, idx) => {
                // A name followed by "(" is a function if one is defined at
                // this moment, else an array cell.
                if self.funcs.contains_key(name.as_str()) {
                    self.call(name, idx)
                } else {
                    let i = self.eval_index(idx)?;
                    self.cell_get(name, &i)
                }
            }
            Expr::Un(op, a) => {
                let v = self.eval(a)?;
                match op {
                    UnOp::Plus => Ok(V::N(Self::num(v)?)),
                    UnOp::Neg => Ok(V::N(-Self::num(v)?)),
                    UnOp::Not => Ok(bool_v(!v.truthy())),
                }
            }
            Expr::Bin(op, l, r) => {
                let a = self.eval(l)?;
                let b = self.eval(r)?;
                apply_bin(*op, a, b)
            }
        }
    }

    fn call(&mut self, name: &str, args: &[Expr]) -> R<V> {
        let f = self.funcs[name].clone();
        self.features.insert("function");
        // The generator always supplies the right number of arguments.
        let mut bound = BTreeMap::new();
        for (p, a) in f.params.iter().zip(args) {
            let v = self.eval(a)?;
            if v.is_str() != is_str_name(p) {
                self.rejected_writes += 1;
                return Err(ErrKind::TypeMismatch);
            }
            bound.insert(p.clone(), v);
        }
        if args.len() != f.params.len() {
            return Err(ErrKind::SyntaxExpectedToken);
        }
        if self.frames.len() == STACK_CAP {
            if self.frames.iter().any(|f| f.ret.is_none()) {
                self.runaway_function_recursion = true;
            }
            return Err(ErrKind::StackOverflow);
        }
        self.frames.push(Frame { ret: None, vars: bound });
        self.max_stack = self.max_stack.max(self.frames.len());
        let saved = self.cur_line;
        self.cur_line = Some(f.line);
        let res = self.eval(&f.body);
        match res {
            Ok(v) => {
                self.frames.pop();
                self.cur_line = saved;
                Ok(v)
            }
            Err(e) => {
                // The error is attributed to the function body's line
                // (cur_line stays); the frame is released.
                self.frames.pop();
                Err(e)
            }
        }
    }

    // ------------------------------------------------------------ statements

    fn line_no(&self, p: Pos) -> u64 {
        self.prog.lines[p.line].number
    }

    fn goto(&mut self, n: u64) -> R<()> {
        match self.prog.line_index(n) {
            Some(i) => {
                self.pos = Pos { line: i, stmt: 0 };
                Ok(())
            }
            None => Err(ErrKind::UndefinedStatement),
        }
    }

    fn assign(&mut self, target: &LValue, idx: Option<Vec<usize>>, v: V) -> R<()> {
        match target {
            LValue::Var(n) => self.var_set(n, v),
            LValue::Cell(n, _) => self.cell_set(n, &idx.unwrap(), v),
        }
    }

    fn lvalue_index(&mut self, target: &LValue) -> R<Option<Vec<usize>>> {
        match target {
            LValue::Var(_) => Ok(None),
            LValue::Cell(_, idx) => Ok(Some(self.eval_index(idx)?)),
        }
    }

    /// Position of the statement following `p`'s statement on the same line.
    fn after(&self, p: Pos) -> Pos {
        Pos { line: p.line, stmt: p.stmt + 1 }
    }

    fn end_of_line(&self, p: Pos) -> Pos {
        Pos { line: p.line, stmt: self.prog.lines[p.line].stmts.len() }
    }

    /// Executes one (possibly nested) statement located at top-level position
    /// `at`. `resume` is where a FOR / GOSUB in this statement resumes later.
    fn exec(&mut self, s: &'p Stmt, at: Pos, resume: Pos, reply: &mut Option<String>) -> R<Flow> {
        self.entries += 1;
        if self.tracing {
            self.events.push(Event::Trace(self.line_no(at)));
        }
        match s {
            Stmt::Empty | Stmt::Rem(_) | Stmt::Data(_) => Ok(Flow::Next),
            Stmt::Let { target, value, .. } => {
                let idx = self.lvalue_index(target)?;
                let v = self.eval(value)?;
                self.assign(target, idx, v)?;
                if matches!(target, LValue::Cell(..)) {
                    self.features.insert("array");
                }
                Ok(Flow::Next)
            }
            Stmt::Print(items) => {
                let mut text = String::new();
                let mut suppress = false;
                for it in items {
                    match it {
                        PrintItem::Semi => suppress = true,
                        PrintItem::Comma => {
                            suppress = false;
                            text.push('\t');
                        }
                        PrintItem::Expr(e) => {
                            suppress = false;
                            let v = self.eval(e)?;
                            text.push_str(&v.show());
                        }
                    }
                }
                if !suppress {
                    text.push('\n');
                }
                self.events.push(Event::Print(text));
                Ok(Flow::Next)
            }
            Stmt::If { cond, then, els } => {
                self.features.insert("conditional");
                let c = self.eval(cond)?.truthy();
                if c {
                    let flow = match then {
                        Branch::Line(n) => {
                            self.goto(*n)?;
                            Flow::Jumped
                        }
                        Branch::Stmt(st) => {
                            // With an ELSE present the rest of the line is
                            // dropped after the THEN statement, so anything
                            // that resumes later resumes at the end of the line.
                            let r = if els.is_some() { self.end_of_line(at) } else { resume };
                            self.exec(st, at, r, reply)?
                        }
                    };
                    match flow {
                        Flow::Next => {
                            if els.is_some() {
                                self.features.insert("else");
                                Ok(Flow::DropLine)
                            } else {
                                Ok(Flow::Next)
                            }
                        }
                        other => Ok(other),
                    }
                } else {
                    match els {
                        None => Ok(Flow::DropLine),
                        Some(Branch::Line(n)) => {
                            self.features.insert("else");
                            self.goto(*n)?;
                            Ok(Flow::Jumped)
                        }
                        Some(Branch::Stmt(st)) => {
                            self.features.insert("else");
                            self.exec(st, at, resume, reply)
                        }
                    }
                }
            }
            Stmt::Goto(n) => {
                self.goto(*n)?;
                Ok(Flow::Jumped)
            }
            Stmt::Gosub(n) => {
                self.features.insert("subroutine");
                if self.frames.len() == STACK_CAP {
                    return Err(ErrKind::StackOverflow);
                }
                self.goto(*n)?;
                self.frames.push(Frame { ret: Some(resume), vars: BTreeMap::new() });
                self.max_stack = self.max_stack.max(self.frames.len());
                Ok(Flow::Jumped)
            }
            Stmt::Return => match self.frames.pop() {
                None => Err(ErrKind::ReturnWithoutGosub),
                Some(f) => {
                    self.pos = f.ret.expect("only GOSUB frames exist between statements");
                    Ok(Flow::Jumped)
                }
            },
            Stmt::For { var, from, to, step } => {
                self.features.insert("loop");
                let f = Self::num(self.eval(from)?)?;
                let t = Self::num(self.eval(to)?)?;
                let st = match step {
                    Some(e) => Self::num(self.eval(e)?)?,
                    None => 1.0,
                };
                if let Some(i) = self.loops.iter().rposition(|l| &l.var == var) {
                    self.loops.truncate(i);
                }
                if self.loops.len() == STACK_CAP {
                    return Err(ErrKind::StackOverflow);
                }
                self.loops.push(Loop { var: var.clone(), to: t, step: st, resume });
                self.max_loops = self.max_loops.max(self.loops.len());
                self.var_set(var, V::N(f))?;
                Ok(Flow::Next)
            }
            Stmt::Next(var) => {
                let cur = match self.vars.get(var.as_str()) {
                    Some(v) => v.clone(),
                    None => default_for(var),
                };
                let cur = Self::num(cur)?;
                let Some(i) = self.loops.iter().rposition(|l| &l.var == var) else {
                    return Err(ErrKind::NextWithoutFor);
                };
                let lp = self.loops[i].clone();
                self.loops.truncate(i);
                let nv = cur + lp.step;
                let cont = if lp.step >= 0.0 { nv <= lp.to } else { nv >= lp.to };
                let mut flow = Flow::Next;
                if cont {
                    self.pos = lp.resume;
                    self.loops.push(lp);
                    flow = Flow::Jumped;
                }
                self.var_set(var, V::N(nv))?;
                Ok(flow)
            }
            Stmt::Read(targets) => {
                self.features.insert("data");
                for t in targets {
                    let idx = self.lvalue_index(t)?;
                    let Some((item, dline)) = self.data.get(self.data_pos).cloned() else {
                        return Err(ErrKind::OutOfData);
                    };
                    self.data_pos += 1;
                    let v = match (&item, is_str_name(t.name())) {
                        (DataItem::Num(n), false) => V::N(*n),
                        (DataItem::Num(n), true) => V::S(format!("{}", n)),
                        (DataItem::Quoted(s), true) | (DataItem::Bare(s), true) => V::S(s.clone()),
                        (_, false) => {
                            self.cur_line = Some(dline);
                            return Err(ErrKind::DataTypeMismatch);
                        }
                    };
                    self.assign(t, idx, v)?;
                    if matches!(t, LValue::Cell(..)) {
                        self.features.insert("array");
                    }
                }
                Ok(Flow::Next)
            }
            Stmt::Restore => {
                self.data_pos = 0;
                Ok(Flow::Next)
            }
            Stmt::Dim(name, idx) => {
                self.features.insert("array");
                let i = self.eval_index(idx)?;
                if self.arrays.contains_key(name.as_str()) {
                    return Err(ErrKind::RedimensionedArray);
                }
                let a = Self::make_array(name, &i)?;
                self.max_array_cells = self.max_array_cells.max(a.cells.len());
                self.arrays.insert(name.clone(), a);
                Ok(Flow::Next)
            }
            Stmt::Def { name, params, body } => {
                self.funcs.insert(
                    name.clone(),
                    FuncDef { params: params.clone(), body: body.clone(), line: self.line_no(at) },
                );
                Ok(Flow::Next)
            }
            Stmt::End => Ok(Flow::End),
            Stmt::Stop => {
                self.stop_resume = Some(resume);
                Ok(Flow::Stop)
            }
            Stmt::Input(target) => {
                self.features.insert("input");
                let Some(text) = reply.take() else {
                    self.pending_input = Some((s, at, resume));
                    return Ok(Flow::NeedInput);
                };
                let idx = self.lvalue_index(target)?;
                let (first, extra) = parse_reply(&text);
                let v = match (first, is_str_name(target.name())) {
                    (ReplyItem::Num(n), false) => V::N(n),
                    (ReplyItem::Num(n), true) => V::S(format!("{}", n)),
                    (ReplyItem::Text(s), true) => V::S(s),
                    (ReplyItem::Text(_), false) => {
                        self.events.push(Event::Reenter);
                        self.pending_input = Some((s, at, resume));
                        return Ok(Flow::NeedInput);
                    }
                };
                self.assign(target, idx, v)?;
                if extra {
                    self.events.push(Event::ExtraIgnored);
                }
                Ok(Flow::Next)
            }
        }
    }

    fn advance_to(&mut self, p: Pos) {
        // normalises a position past the end of its line to the next line
        let mut p = p;
        loop {
            if p.line >= self.prog.lines.len() {
                self.status = Status::Done;
                self.events.push(Event::End);
                return;
            }
            if p.stmt >= self.prog.lines[p.line].stmts.len() {
                p = Pos { line: p.line + 1, stmt: 0 };
                continue;
            }
            break;
        }
        self.pos = p;
    }

    fn settle(&mut self, flow: R<Flow>, at: Pos, next: Pos) {
        match flow {
            Err(kind) => {
                self.events.push(Event::Error(kind, self.cur_line));
                self.status = Status::Done;
            }
            Ok(Flow::Next) => self.advance_to(next),
            Ok(Flow::DropLine) => {
                let p = Pos { line: at.line + 1, stmt: 0 };
                self.advance_to(p);
            }
            Ok(Flow::Jumped) => {
                let p = self.pos;
                self.advance_to(p);
            }
            Ok(Flow::End) => {
                self.status = Status::Done;
                self.events.push(Event::End);
            }
            Ok(Flow::Stop) => {
                self.events.push(Event::Break(Some(self.line_no(at))));
                self.status = Status::Stopped;
            }
            Ok(Flow::NeedInput) => {
                self.events.push(Event::InputRequest);
                self.status = Status::AwaitingInput;
            }
        }
    }

    /// Executes one top-level statement (an IF together with the statement it
    /// selects counts as one).
    pub fn step(&mut self) {
        assert_eq!(self.status, Status::Running);
        let at = self.pos;
        let prog: &'p Program = self.prog;
        let s = &prog.lines[at.line].stmts[at.stmt];
        self.cur_line = Some(self.line_no(at));
        if !matches!(s, Stmt::Empty) {
            // an empty statement has no token of its own: it is not a statement the host sees
            self.stmts_executed += 1;
        }
        let resume = self.after(at);
        let mut reply = None;
        let flow = self.exec(s, at, resume, &mut reply);
        self.settle(flow, at, resume);
    }

    /// Supplies the reply to the pending INPUT; only the INPUT statement
    /// itself is (re-)executed.
    pub fn reply(&mut self, text: &str) {
        assert_eq!(self.status, Status::AwaitingInput);
        let (stmt, at, resume) = self.pending_input.take().unwrap();
        self.status = Status::Running;
        self.cur_line = Some(self.line_no(at));
        let mut reply = Some(text.to_string());
        let flow = self.exec(stmt, at, resume, &mut reply);
        self.settle(flow, at, resume);
    }

    /// CONT after a STOP.
    pub fn cont(&mut self) {
        assert_eq!(self.status, Status::Stopped);
        self.status = Status::Running;
        let p = self.stop_resume.take().unwrap();
        self.advance_to(p);
    }

    /// Runs until done / input / stop, or until `budget` statements ran.
    pub fn run(&mut self, budget: &mut u64) {
        while self.status == Status::Running && *budget > 0 {
            *budget -= 1;
            self.step();
        }
    }

    pub fn printed(&self) -> String {
        let mut s = String::new();
        for e in &self.events {
            if let Event::Print(p) = e {
                s.push_str(p);
            }
        }
        s
    }

    pub fn outcome(&self) -> Option<(ErrKind, Option<u64>)> {
        self.events.iter().rev().find_map(|e| if let Event::Error(k, l) = e { Some((*k, *l)) } else { None })
    }

    /// The INPUT statement currently waiting for a reply.
    pub fn pending_input_stmt(&self) -> Option<&'p Stmt> {
        self.pending_input.map(|(s, _, _)| s)
    }

    pub fn stack_depth(&self) -> usize {
        self.frames.len()
    }
    pub fn open_loops(&self) -> Vec<String> {
        self.loops.iter().map(|l| l.var.clone()).collect()
    }
    pub fn array_names(&self) -> Vec<String> {
        self.arrays.keys().cloned().collect()
    }
    pub fn array_dims(&self, name: &str) -> Option<Vec<usize>> {
        self.arrays.get(name).map(|a| a.dims.clone())
    }
    pub fn data_cursor(&self) -> usize {
        self.data_pos
    }
    pub fn function_names(&self) -> Vec<String> {
        let mut v: Vec<String> = self.funcs.keys().cloned().collect();
        v.sort();
        v
    }
    pub fn cur_line_number(&self) -> Option<u64> {
        if self.status == Status::Done {
            None
        } else {
            Some(self.line_no(self.pos))
        }
    }
}

pub fn apply_bin(op: BinOp, a: V, b: V) -> R<V> {
    use BinOp::*;
    match op {
        And => Ok(bool_v(a.truthy() && b.truthy())),
        Or => Ok(bool_v(a.truthy() || b.truthy())),
        Eq | Ne | Lt | Le | Gt | Ge => {
            let r = match (&a, &b) {
                (V::N(x), V::N(y)) => cmp(op, x.partial_cmp(y)),
                (V::S(x), V::S(y)) => cmp(op, Some(x.as_bytes().cmp(y.as_bytes()))),
                _ => return Err(ErrKind::TypeMismatch),
            };
            Ok(bool_v(r))
        }
        Pow | Mul | Div | Add | Sub => {
            let (V::N(x), V::N(y)) = (&a, &b) else {
                return Err(ErrKind::TypeMismatch);
            };
            let (x, y) = (*x, *y);
            Ok(V::N(match op {
                Pow => x.powf(y),
                Mul => x * y,
                Div => {
                    if y == 0.0 {
                        return Err(ErrKind::DivisionByZero);
                    }
                    x / y
                }
                Add => x + y,
                Sub => x - y,
                _ => unreachable!(),
            }))
        }
    }
}

fn cmp(op: BinOp, o: Option<std::cmp::Ordering>) -> bool {
    use std::cmp::Ordering::*;
    match (op, o) {
        (BinOp::Ne, None) => true,
        (_, None) => false,
        (BinOp::Eq, Some(x)) => x == Equal,
        (BinOp::Ne, Some(x)) => x != Equal,
        (BinOp::Lt, Some(x)) => x == Less,
        (BinOp::Le, Some(x)) => x != Greater,
        (BinOp::Gt, Some(x)) => x == Greater,
        (BinOp::Ge, Some(x)) => x != Less,
        _ => unreachable!(),
    }
}

#[derive(Debug, Clone, PartialEq)]
pub enum ReplyItem {
    Num(f64),
    Text(String),
}

/// Parses an INPUT reply from the documented reply grammar: items separated
/// by commas, the list ended by a colon outside quotes; an item is either a
/// double-quoted string (taken verbatim) or bare text (trimmed; a number if
/// it reads as one). Returns the first item and whether anything follows it.
pub fn parse_reply(text: &str) -> (ReplyItem, bool) {
    let mut items: Vec<ReplyItem> = vec![];
    let mut cur = String::new();
    let mut in_q = false;
    let mut leftover = false;
    let mut quoted_done = false;
    let push_bare = |cur: &mut String, items: &mut Vec<ReplyItem>| {
        let t = cur.trim().to_string();
        cur.clear();
        if let Ok(n) = t.parse::<f64>() {
            items.push(ReplyItem::Num(n));
        } else {
            items.push(ReplyItem::Text(t));
        }
    };
    for ch in text.chars() {
        if in_q {
            if ch == '"' {
                items.push(ReplyItem::Text(std::mem::take(&mut cur)));
                in_q = false;
                quoted_done = true;
            } else {
                cur.push(ch);
            }
            continue;
        }
        match ch {
            ':' => {
                leftover = true;
                break;
            }
            ',' => {
                if !cur.trim().is_empty() {
                    push_bare(&mut cur, &mut items);
                }
                cur.clear();
                quoted_done = false;
            }
            '"' if cur.trim().is_empty() && !quoted_done => {
                cur.clear();
                in_q = true;
            }
            _ => cur.push(ch),
        }
    }
    if in_q {
        items.push(ReplyItem::Text(std::mem::take(&mut cur)));
    } else if !cur.trim().is_empty() {
        push_bare(&mut cur, &mut items);
    }
    if items.is_empty() {
        items.push(ReplyItem::Text(String::new()));
    }
    let extra = items.len() > 1 || leftover;
    (items.remove(0), extra)
}
