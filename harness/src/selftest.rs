//! Self-test of the reference interpreter against expectations pinned by the
//! repository's own tests (abasic-core/tests/interpreter_test.rs), transcribed
//! by hand into structured programs. Run before the model-based searches; a
//! failure is an infrastructure error (exit 3), not a violation.

use crate::ast::*;
use crate::model::{Model, Status};
use crate::sess::ErrKind;

fn n(x: f64) -> Expr {
    Expr::Num(x)
}
fn v(s: &str) -> Expr {
    Expr::var(s)
}
fn s(t: &str) -> Expr {
    Expr::Str(t.into())
}
fn pr(items: Vec<Expr>) -> Stmt {
    // items juxtaposed the way the repo tests write them (`print "i = " i`): no separator text
    let mut v = vec![];
    for (i, e) in items.into_iter().enumerate() {
        if i > 0 {
            v.push(PrintItem::Semi);
        }
        v.push(PrintItem::Expr(e));
    }
    Stmt::Print(v)
}
fn let_(name: &str, e: Expr) -> Stmt {
    Stmt::Let { target: LValue::Var(name.into()), value: e, with_let: false }
}
fn for_(var: &str, a: f64, b: f64, step: Option<f64>) -> Stmt {
    Stmt::For {
        var: var.into(),
        from: n(a),
        to: n(b),
        step: step.map(|x| if x < 0.0 { Expr::un(UnOp::Neg, n(-x)) } else { n(x) }),
    }
}
fn line(number: u64, stmts: Vec<Stmt>) -> Line {
    Line { number, stmts }
}

struct Expectation {
    name: &'static str,
    prog: Program,
    output: &'static str,
    error: Option<ErrKind>,
}

fn corpus() -> Vec<Expectation> {
    let add = |a, b| Expr::bin(BinOp::Add, a, b);
    vec![
        Expectation {
            name: "looping_works (1)",
            prog: Program { lines: vec![line(10, vec![for_("I", 1.0, 3.0, None), pr(vec![v("I")]), Stmt::Next("I".into()), pr(vec![s("DONE"), v("I")])])] },
            output: "1\n2\n3\nDONE4\n",
            error: None,
        },
        Expectation {
            name: "looping_works (3): negative step",
            prog: Program { lines: vec![line(10, vec![for_("I", 3.0, 1.0, Some(-1.0)), pr(vec![v("I")]), Stmt::Next("I".into()), pr(vec![s("DONE"), v("I")])])] },
            output: "3\n2\n1\nDONE0\n",
            error: None,
        },
        Expectation {
            name: "looping_works (4): step 2",
            prog: Program { lines: vec![line(10, vec![for_("I", 1.0, 3.0, Some(2.0)), pr(vec![v("I")]), Stmt::Next("I".into())])] },
            output: "1\n3\n",
            error: None,
        },
        Expectation {
            name: "weird_looping_works",
            prog: Program {
                lines: vec![line(
                    10,
                    vec![for_("I", 1.0, 2.0, None), pr(vec![s("i = "), v("I")]), for_("J", 1.0, 2.0, None), pr(vec![s("j = "), v("J")]), Stmt::Next("I".into())],
                )],
            },
            output: "i = 1\nj = 1\ni = 2\nj = 1\n",
            error: None,
        },
        Expectation {
            name: "gosub_works",
            prog: Program {
                lines: vec![
                    line(10, vec![Stmt::Gosub(40)]),
                    line(20, vec![pr(vec![s("dog")])]),
                    line(30, vec![Stmt::Goto(60)]),
                    line(40, vec![pr(vec![s("sup")])]),
                    line(50, vec![Stmt::Return]),
                    line(60, vec![Stmt::End]),
                ],
            },
            output: "sup\ndog\n",
            error: None,
        },
        Expectation {
            name: "restore_works",
            prog: Program {
                lines: vec![
                    line(10, vec![Stmt::Data(vec![DataItem::Bare("sup".into()), DataItem::Bare("dog".into()), DataItem::Num(1.0)])]),
                    line(20, vec![for_("I", 1.0, 3.0, None)]),
                    line(30, vec![Stmt::Read(vec![LValue::Var("A$".into())])]),
                    line(40, vec![pr(vec![v("A$")])]),
                    line(45, vec![Stmt::Restore]),
                    line(50, vec![Stmt::Next("I".into())]),
                ],
            },
            output: "sup\nsup\nsup\n",
            error: None,
        },
        Expectation {
            name: "nested_functions_weirdly_look_at_the_stack_of_their_callers",
            prog: Program {
                lines: vec![
                    line(1, vec![let_("Y", n(0.0))]),
                    line(10, vec![Stmt::Def { name: "FNA".into(), params: vec!["X".into()], body: add(add(v("X"), v("Y")), n(1.0)) }]),
                    line(20, vec![Stmt::Def { name: "FNB".into(), params: vec!["Y".into()], body: Expr::Call("FNA".into(), vec![v("Y")]) }]),
                    line(30, vec![pr(vec![Expr::Call("FNB".into(), vec![n(1.0)])])]),
                ],
            },
            output: "3\n",
            error: None,
        },
        Expectation {
            name: "stack_overflow_works",
            prog: Program { lines: vec![line(10, vec![pr(vec![s("hi")])]), line(20, vec![Stmt::Gosub(10)])] },
            output: "",
            error: Some(ErrKind::StackOverflow),
        },
        Expectation {
            name: "data_type_mismatch_works",
            prog: Program { lines: vec![line(10, vec![Stmt::Data(vec![DataItem::Bare("sup".into())])]), line(20, vec![Stmt::Read(vec![LValue::Var("A".into())])])] },
            output: "",
            error: Some(ErrKind::DataTypeMismatch),
        },
        Expectation {
            name: "function_calls_with_badly_typed_arguments_fail",
            prog: Program {
                lines: vec![
                    line(10, vec![Stmt::Def { name: "FNA".into(), params: vec!["X".into()], body: v("X") }]),
                    line(20, vec![pr(vec![Expr::Call("FNA".into(), vec![s("boop")])])]),
                ],
            },
            output: "",
            error: Some(ErrKind::TypeMismatch),
        },
        Expectation {
            name: "if_statement_processes_multiple_statements_in_else_clause (shape)",
            prog: Program {
                lines: vec![line(
                    10,
                    vec![
                        Stmt::If { cond: n(0.0), then: Branch::Stmt(Box::new(pr(vec![s("a")]))), els: Some(Branch::Stmt(Box::new(pr(vec![s("b")])))) },
                        pr(vec![s("c")]),
                    ],
                )],
            },
            output: "b\nc\n",
            error: None,
        },
        Expectation {
            name: "then clause true with else: rest of line dropped",
            prog: Program {
                lines: vec![
                    line(
                        10,
                        vec![
                            Stmt::If { cond: n(1.0), then: Branch::Stmt(Box::new(pr(vec![s("a")]))), els: Some(Branch::Stmt(Box::new(pr(vec![s("b")])))) },
                            pr(vec![s("c")]),
                        ],
                    ),
                    line(20, vec![pr(vec![s("d")])]),
                ],
            },
            output: "a\nd\n",
            error: None,
        },
        Expectation {
            name: "default_array_values_work + bad_subscript (implicit arrays have indices 0..10)",
            prog: Program { lines: vec![line(10, vec![pr(vec![Expr::Cell("A".into(), vec![n(10.0)])]), pr(vec![Expr::Cell("A".into(), vec![n(11.0)])])])] },
            output: "0\n",
            error: Some(ErrKind::BadSubscript),
        },
    ]
}

/// Returns a description of the first mismatch, if any.
pub fn run() -> Result<usize, String> {
    let c = corpus();
    let n = c.len();
    for e in c {
        let mut m = Model::new(&e.prog, 0);
        let mut budget = 100_000u64;
        m.run(&mut budget);
        // stack_overflow_works prints "hi" 33 times before failing; the repo test only pins the error
        let out = m.printed();
        if e.error.is_none() || !e.output.is_empty() {
            if out != e.output {
                return Err(format!("model self-test {:?}: output {:?}, the repo's test expects {:?}", e.name, out, e.output));
            }
        }
        if m.status != Status::Done || m.outcome().map(|o| o.0) != e.error {
            return Err(format!("model self-test {:?}: outcome {:?}, the repo's test expects {:?}", e.name, m.outcome(), e.error));
        }
    }
    Ok(n)
}
