pub mod core;
pub mod sess;
pub mod props;
pub mod child;
