pub mod ast;
pub mod child;
pub mod core;
pub mod gen;
pub mod model;
pub mod props;
pub mod sess;
pub mod textgen;
