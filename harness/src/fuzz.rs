//! Byte-level entry points shared by the cargo-fuzz targets and by
//! `./check Cxx --replay <artifact>`: decode the bytes into the property's
//! case type and run the same oracle as the generated search.

use crate::core::{CaseRec, Verdict};
use crate::props::{c01, c05, c13};
use crate::sess::Intent;

fn verdict_to_option(v: Verdict) -> Option<String> {
    match v {
        Verdict::Pass => None,
        Verdict::Fail { key, detail } => Some(format!("key={} {}", key, detail)),
    }
}

pub fn c13_verdict(data: &[u8]) -> Verdict {
    let Ok(s) = std::str::from_utf8(data) else { return Verdict::Pass };
    let line = s.replace('\n', " ");
    match c13::check_line_ranges(&line) {
        Ok(_) => Verdict::Pass,
        Err((k, d)) => Verdict::fail(k, d),
    }
}

pub fn c05_verdict(data: &[u8]) -> Verdict {
    let Ok(s) = std::str::from_utf8(data) else { return Verdict::Pass };
    match c05::check_document(s) {
        Ok(_) => Verdict::Pass,
        Err((k, d)) => Verdict::fail(k, d),
    }
}

/// Data provider for C01: records separated by 0x00; the first byte of a
/// record selects the intent, the rest is its text / argument.
pub fn decode_session(data: &[u8]) -> c01::Session {
    let mut intents = vec![];
    for rec in data.split(|b| *b == 0).take(64) {
        if rec.is_empty() {
            continue;
        }
        let text = String::from_utf8_lossy(&rec[1..]).replace('\n', " ");
        intents.push(match rec[0] % 8 {
            0 | 1 | 2 => Intent::Line(text),
            3 => Intent::Reply(text),
            4 => Intent::Continue(1 + (rec.get(1).copied().unwrap_or(7) as u16 % 64)),
            5 => Intent::Break,
            6 => {
                let mut s = [0u8; 8];
                for (i, b) in rec[1..].iter().take(8).enumerate() {
                    s[i] = *b;
                }
                Intent::Seed(u64::from_le_bytes(s))
            }
            _ => Intent::Line(format!("{} {}", rec.get(1).copied().unwrap_or(1) % 50, String::from_utf8_lossy(&rec[rec.len().min(2)..]).replace('\n', " "))),
        });
    }
    c01::Session { intents, verify_listing: data.first().map(|b| b & 1 == 1).unwrap_or(false) }
}

pub fn c01_verdict(data: &[u8]) -> Verdict {
    let s = decode_session(data);
    let mut rec = CaseRec::default();
    c01::check_session(&s, &mut rec)
}

/// C14: the bytes are program text; lines without a number get one.
pub fn c14_verdict(data: &[u8]) -> Verdict {
    let Ok(s) = std::str::from_utf8(data) else { return Verdict::Pass };
    let lines: Vec<String> = s
        .split('\n')
        .take(12)
        .enumerate()
        .map(|(i, l)| if l.trim_start().starts_with(|c: char| c.is_ascii_digit()) { l.to_string() } else { format!("{} {}", (i + 1) * 10, l) })
        .collect();
    let mut rec = CaseRec::default();
    crate::props::c14::check_store(&crate::props::c14::StoreCase { lines, seed: 0 }, &mut rec)
}

pub fn c14(data: &[u8]) -> Option<String> {
    verdict_to_option(c14_verdict(data))
}

pub fn c13(data: &[u8]) -> Option<String> {
    verdict_to_option(c13_verdict(data))
}
pub fn c05(data: &[u8]) -> Option<String> {
    verdict_to_option(c05_verdict(data))
}
pub fn c01(data: &[u8]) -> Option<String> {
    verdict_to_option(c01_verdict(data))
}

/// Writes a small seed corpus for `target` into `dir`.
pub fn emit_corpus(target: &str, dir: &std::path::Path) -> std::io::Result<usize> {
    std::fs::create_dir_all(dir)?;
    let lines = crate::textgen::repo_lines();
    let mut n = 0;
    let mut put = |name: String, bytes: Vec<u8>| -> std::io::Result<()> {
        std::fs::write(dir.join(name), bytes)?;
        n += 1;
        Ok(())
    };
    match target {
        "c13_ranges" => {
            for (i, l) in lines.iter().enumerate().take(400) {
                put(format!("line{}", i), l.as_bytes().to_vec())?;
            }
        }
        "c14_roundtrip" => {
            for f in ["/repo/programs/chemist.bas", "/repo/programs/hamurabi.bas"] {
                if let Ok(t) = std::fs::read_to_string(f) {
                    for (i, chunk) in t.lines().filter(|l| !l.trim().is_empty()).collect::<Vec<_>>().chunks(8).enumerate() {
                        put(format!("{}-{}", f.rsplit('/').next().unwrap(), i), chunk.join("\n").into_bytes())?;
                    }
                }
            }
            for (i, l) in lines.iter().enumerate().take(300) {
                put(format!("line{}", i), l.as_bytes().to_vec())?;
            }
            put("data".into(), b"10 DATA hello \"there\", \"a,b\", 5 , x y :REM r\n20 X .5:PRINT X1.1\n30 READ A$,B$".to_vec())?;
        }
        "c05_analyze" => {
            for f in ["/repo/programs/chemist.bas", "/repo/programs/hamurabi.bas"] {
                if let Ok(t) = std::fs::read(f) {
                    put(f.rsplit('/').next().unwrap().to_string(), t)?;
                }
            }
            put("dup".into(), b"10 X = 1\n10\n20 PRINT \"\xc3\xa9\" + 1\n20 GOTO 99".to_vec())?;
            for (i, chunk) in lines.chunks(6).enumerate().take(60) {
                put(format!("doc{}", i), chunk.iter().enumerate().map(|(k, l)| format!("{} {}", (k + 1) * 10, l)).collect::<Vec<_>>().join("\n").into_bytes())?;
            }
        }
        _ => {
            // sessions: a few programs typed, RUN, replies, breaks
            let mut s: Vec<u8> = vec![];
            for l in ["10 INPUT X", "20 PRINT X*2 : IF X < 3 THEN 10", "30 FOR I = 1 TO 3 : GOSUB 100 : NEXT I", "40 END", "100 PRINT I; : RETURN"] {
                s.push(0);
                s.push(0);
                s.extend(l.as_bytes());
            }
            s.extend([0, 1]);
            s.extend(b"RUN");
            s.extend([0, 3]);
            s.extend(b"1");
            s.extend([0, 4, 20, 0, 5, 0, 1]);
            s.extend(b"CONT");
            s.extend([0, 4, 40]);
            put("session0".into(), s)?;
            for (i, l) in crate::props::c01::BOUNDARY_LINES.iter().enumerate() {
                let mut s = vec![0u8];
                s.extend(l.as_bytes());
                s.extend([0, 1]);
                s.extend(b"RUN");
                s.extend([0, 4, 30]);
                put(format!("boundary{}", i), s)?;
            }
        }
    }
    Ok(n)
}
