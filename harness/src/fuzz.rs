//! Byte-level entry points shared by the cargo-fuzz targets and by
//! `./check Cxx --replay <artifact>`: decode the bytes into the property's
//! case type and run the same oracle as the generated search.

use crate::core::{CaseRec, Verdict};
use crate::props::{c01, c02, c04, c05, c12, c13, c16, c19};
use crate::sess::Intent;

fn verdict_to_option(v: Verdict) -> Option<String> {
    match v {
        Verdict::Pass => None,
        Verdict::Fail { key, detail } => Some(format!("key={} {}", key, detail)),
    }
}

pub fn c13_verdict(data: &[u8]) -> Verdict {
    let Ok(s) = std::str::from_utf8(data) else { return Verdict::Pass };
    let line = s.replace('\n', " ");
    match c13::check_line_ranges(&line) {
        Ok(_) => Verdict::Pass,
        Err((k, d)) => Verdict::fail(k, d),
    }
}

pub fn c05_verdict(data: &[u8]) -> Verdict {
    let Ok(s) = std::str::from_utf8(data) else { return Verdict::Pass };
    match c05::check_document(s) {
        Ok(_) => Verdict::Pass,
        Err((k, d)) => Verdict::fail(k, d),
    }
}

/// Data provider for C01: records separated by 0x00; the first byte of a
/// record selects the intent, the rest is its text / argument.
pub fn decode_session(data: &[u8]) -> c01::Session {
    let mut intents = vec![];
    for rec in data.split(|b| *b == 0).take(64) {
        if rec.is_empty() {
            continue;
        }
        let text = String::from_utf8_lossy(&rec[1..]).replace('\n', " ");
        intents.push(match rec[0] % 8 {
            0 | 1 | 2 => Intent::Line(text),
            3 => Intent::Reply(text),
            4 => Intent::Continue(1 + (rec.get(1).copied().unwrap_or(7) as u16 % 64)),
            5 => Intent::Break,
            6 => {
                let mut s = [0u8; 8];
                for (i, b) in rec[1..].iter().take(8).enumerate() {
                    s[i] = *b;
                }
                Intent::Seed(u64::from_le_bytes(s))
            }
            _ => Intent::Line(format!("{} {}", rec.get(1).copied().unwrap_or(1) % 50, String::from_utf8_lossy(&rec[rec.len().min(2)..]).replace('\n', " "))),
        });
    }
    c01::Session { intents, verify_listing: data.first().map(|b| b & 1 == 1).unwrap_or(false) }
}

pub fn c01_verdict(data: &[u8]) -> Verdict {
    let s = decode_session(data);
    let mut rec = CaseRec::default();
    c01::check_session(&s, &mut rec)
}

/// C14: the bytes are program text; lines without a number get one.
pub fn c14_verdict(data: &[u8]) -> Verdict {
    let Ok(s) = std::str::from_utf8(data) else { return Verdict::Pass };
    let lines: Vec<String> = s
        .split('\n')
        .take(12)
        .enumerate()
        .map(|(i, l)| if l.trim_start().starts_with(|c: char| c.is_ascii_digit()) { l.to_string() } else { format!("{} {}", (i + 1) * 10, l) })
        .collect();
    let mut rec = CaseRec::default();
    crate::props::c14::check_store(&crate::props::c14::StoreCase { lines, seed: 0 }, &mut rec)
}

pub fn c14(data: &[u8]) -> Option<String> {
    verdict_to_option(c14_verdict(data))
}

pub fn c13(data: &[u8]) -> Option<String> {
    verdict_to_option(c13_verdict(data))
}
pub fn c05(data: &[u8]) -> Option<String> {
    verdict_to_option(c05_verdict(data))
}
pub fn c01(data: &[u8]) -> Option<String> {
    verdict_to_option(c01_verdict(data))
}

// ---------------------------------------------------------------- structured decoders

struct Bytes<'a> {
    d: &'a [u8],
    i: usize,
}

impl<'a> Bytes<'a> {
    fn new(d: &'a [u8]) -> Self {
        Bytes { d, i: 0 }
    }
    fn u8(&mut self) -> Option<u8> {
        let b = self.d.get(self.i).copied();
        self.i += 1;
        b
    }
    fn u64(&mut self) -> u64 {
        let mut v = [0u8; 8];
        for x in v.iter_mut() {
            *x = self.u8().unwrap_or(0);
        }
        u64::from_le_bytes(v)
    }
}

/// C02: the bytes are a prefix-notation expression over the check's leaves.
pub fn decode_expr(data: &[u8]) -> c02::ExprCase {
    use crate::ast::{Expr, ALL_BINOPS, ALL_UNOPS};
    fn build(b: &mut Bytes, leaves: &[Expr], depth: u32, nodes: &mut u32) -> Expr {
        let x = b.u8().unwrap_or(0) as usize;
        *nodes += 1;
        if depth >= 10 || *nodes > 40 {
            return leaves[x % leaves.len()].clone();
        }
        match x % 32 {
            k @ 0..=12 => {
                let l = build(b, leaves, depth + 1, nodes);
                let r = build(b, leaves, depth + 1, nodes);
                Expr::bin(ALL_BINOPS[k], l, r)
            }
            k @ 13..=15 => Expr::un(ALL_UNOPS[k - 13], build(b, leaves, depth + 1, nodes)),
            16 => Expr::Abs(Box::new(build(b, leaves, depth + 1, nodes))),
            17 => Expr::Int(Box::new(build(b, leaves, depth + 1, nodes))),
            18 => Expr::Paren(Box::new(build(b, leaves, depth + 1, nodes))),
            _ => leaves[(x / 32 + (x % 32 - 19) * 8) % leaves.len()].clone(),
        }
    }
    let leaves = c02::leaves_random();
    let mut b = Bytes::new(data);
    let salt = b.u8().unwrap_or(0) as u64;
    let mut nodes = 0;
    c02::ExprCase { expr: build(&mut b, &leaves, 0, &mut nodes), salt }
}

pub fn c02_verdict(data: &[u8]) -> Verdict {
    let mut rec = CaseRec::default();
    c02::check_expr(&decode_expr(data), &mut rec)
}

/// C04: three-byte records (kind, number selector, spelling bits); a selector
/// >= 248 takes eight more bytes as the line number.
pub fn decode_edits(data: &[u8]) -> c04::Hist {
    const POOL: &[u64] = &[0, 1, 9, 10, 4294967296, 9223372036854775808, 18446744073709551614, 18446744073709551615];
    const PAYLOADS: &[&str] = &[
        "PRINT 1", "X = X + 1 : PRINT X", "GOTO 3", "GOSUB 7", "RETURN", "FOR I = 1 TO 2", "NEXT I", "DATA 1, two, \"3\"", "READ V$ : PRINT V$", "END",
        "REM x", "IF X < 3 THEN 1", "DIM Q(2)", "?\"s\";", "RESTORE", "STOP",
    ];
    let mut b = Bytes::new(data);
    let mut ops = vec![];
    while ops.len() < 60 {
        let Some(k) = b.u8() else { break };
        let sel = b.u8().unwrap_or(0);
        let sp = b.u8().unwrap_or(0);
        let num = if sel >= 248 {
            b.u64()
        } else if sel >= 200 {
            POOL[(sel as usize - 200) % POOL.len()]
        } else {
            (sel % 12) as u64
        };
        let (zeros, blanks, gap) = (sp & 3, (sp >> 2) & 3, (sp >> 4) % 3);
        let (zeros, blanks) = (zeros.min(2), blanks.min(2));
        ops.push(match k % 22 {
            0..=9 => {
                let payload = if k >= 128 { Some(PAYLOADS[(sp >> 4) as usize % PAYLOADS.len()].to_string()) } else { None };
                c04::Op::Enter { num, zeros, blanks, gap, payload, rem: k % 22 == 8, stop: k % 22 == 9 }
            }
            10..=13 => c04::Op::Delete { num, zeros, blanks, trailing: gap },
            14..=16 => c04::Op::Fail { num, zeros, kind: (sp >> 4) % 6 },
            17 => c04::Op::Huge((sp >> 4) % 4),
            18 | 19 => c04::Op::List,
            _ => c04::Op::Run,
        });
    }
    c04::Hist { ops }
}

pub fn c04_verdict(data: &[u8]) -> Verdict {
    let mut rec = CaseRec::default();
    c04::check(&decode_edits(data), &mut rec)
}

/// C12: records separated by 0x00; the first byte of a record tags it as free
/// text, a string literal, or (last record only) a REM tail. Quotes never
/// occur in free text, so the protected map is right by construction.
pub fn decode_segline(data: &[u8]) -> c12::SegLine {
    use c12::Seg;
    // free text: printable ASCII, spaces and tabs (the blanks the property speaks of)
    let free_char = |c: &char| *c == ' ' || *c == '\t' || c.is_ascii_graphic();
    let mut segs = vec![];
    let recs: Vec<&[u8]> = data.split(|b| *b == 0).filter(|r| !r.is_empty()).take(12).collect();
    let n = recs.len();
    for (i, r) in recs.into_iter().enumerate() {
        let text: String = String::from_utf8_lossy(&r[1..]).chars().filter(|c| *c != '"' && *c != '\n' && *c != '\u{fffd}').collect();
        match r[0] % 8 {
            0..=4 => segs.push(Seg::Free(text.chars().filter(free_char).collect())),
            5 | 6 => {
                segs.push(Seg::Free("\"".into()));
                segs.push(Seg::Prot(text));
                segs.push(Seg::Free("\"".into()));
            }
            _ => {
                if i + 1 == n {
                    segs.push(Seg::Free("REM".into()));
                    segs.push(Seg::Prot(text));
                } else {
                    segs.push(Seg::Free(text.chars().filter(free_char).collect()));
                }
            }
        }
    }
    c12::SegLine { segs: c12::normalize(segs), salt: data.len() as u64 }
}

pub fn c12_verdict(data: &[u8]) -> Verdict {
    let mut rec = CaseRec::default();
    c12::check(&decode_segline(data), &mut rec)
}

/// C16: the session decoding of C01, judged by the state invariants.
pub fn c16_verdict(data: &[u8]) -> Verdict {
    let mut s = decode_session(data);
    s.verify_listing = false;
    let mut rec = CaseRec::default();
    c16::check_session(&s, &mut rec)
}

/// C19: records separated by 0x00: submit a line, CTRL-C, or timer ticks; the
/// first record may be the program text loaded at start-up.
pub fn decode_page(data: &[u8]) -> c19::PageHistory {
    let mut events = vec![];
    let mut load = None;
    let mut seed = 0u64;
    for (i, r) in data.split(|b| *b == 0).filter(|r| !r.is_empty()).take(60).enumerate() {
        let text = String::from_utf8_lossy(&r[1..]).replace('\u{fffd}', "?");
        match r[0] % 8 {
            0..=3 => events.push(c19::PageEvent::Submit(text.replace('\n', " "))),
            4 => events.push(c19::PageEvent::Break),
            5 | 6 => {
                for _ in 0..(1 + r.len() % 6) {
                    events.push(c19::PageEvent::Tick);
                }
            }
            _ => {
                if i == 0 {
                    load = Some(text);
                } else {
                    seed = r[1..].iter().fold(0u64, |a, b| a.wrapping_mul(257).wrapping_add(*b as u64));
                    events.push(c19::PageEvent::Tick);
                }
            }
        }
    }
    c19::PageHistory { load, seed, events }
}

pub fn c19_verdict(data: &[u8]) -> Verdict {
    let mut rec = CaseRec::default();
    c19::check(&decode_page(data), &mut rec)
}

pub fn c02(data: &[u8]) -> Option<String> {
    verdict_to_option(c02_verdict(data))
}
pub fn c04(data: &[u8]) -> Option<String> {
    verdict_to_option(c04_verdict(data))
}
pub fn c12(data: &[u8]) -> Option<String> {
    verdict_to_option(c12_verdict(data))
}
pub fn c16(data: &[u8]) -> Option<String> {
    verdict_to_option(c16_verdict(data))
}
/// The adapter's traps are caught and judged by the oracle; libFuzzer's own
/// panic hook would abort at the first caught panic, so it is replaced once.
/// The recorded known finding (start-up loader ignores errors) is excluded by
/// construction here, otherwise every campaign would end on it; any other
/// failure key is reported.
pub fn c19(data: &[u8]) -> Option<String> {
    static HOOK: std::sync::Once = std::sync::Once::new();
    HOOK.call_once(crate::core::install_quiet_panic_hook);
    match c19_verdict(data) {
        Verdict::Fail { key, .. } if key == "loader-ignores-errors" => None,
        v => verdict_to_option(v),
    }
}

/// Writes a small seed corpus for `target` into `dir`.
pub fn emit_corpus(target: &str, dir: &std::path::Path) -> std::io::Result<usize> {
    std::fs::create_dir_all(dir)?;
    let lines = crate::textgen::repo_lines();
    let mut n = 0;
    let mut put = |name: String, bytes: Vec<u8>| -> std::io::Result<()> {
        std::fs::write(dir.join(name), bytes)?;
        n += 1;
        Ok(())
    };
    match target {
        "c13_ranges" => {
            for (i, l) in lines.iter().enumerate().take(400) {
                put(format!("line{}", i), l.as_bytes().to_vec())?;
            }
        }
        "c14_roundtrip" => {
            for f in ["/repo/programs/chemist.bas", "/repo/programs/hamurabi.bas"] {
                if let Ok(t) = std::fs::read_to_string(f) {
                    for (i, chunk) in t.lines().filter(|l| !l.trim().is_empty()).collect::<Vec<_>>().chunks(8).enumerate() {
                        put(format!("{}-{}", f.rsplit('/').next().unwrap(), i), chunk.join("\n").into_bytes())?;
                    }
                }
            }
            for (i, l) in lines.iter().enumerate().take(300) {
                put(format!("line{}", i), l.as_bytes().to_vec())?;
            }
            put("data".into(), b"10 DATA hello \"there\", \"a,b\", 5 , x y :REM r\n20 X .5:PRINT X1.1\n30 READ A$,B$".to_vec())?;
        }
        "c05_analyze" => {
            for f in ["/repo/programs/chemist.bas", "/repo/programs/hamurabi.bas"] {
                if let Ok(t) = std::fs::read(f) {
                    put(f.rsplit('/').next().unwrap().to_string(), t)?;
                }
            }
            put("dup".into(), b"10 X = 1\n10\n20 PRINT \"\xc3\xa9\" + 1\n20 GOTO 99".to_vec())?;
            for (i, chunk) in lines.chunks(6).enumerate().take(60) {
                put(format!("doc{}", i), chunk.iter().enumerate().map(|(k, l)| format!("{} {}", (k + 1) * 10, l)).collect::<Vec<_>>().join("\n").into_bytes())?;
            }
        }
        "c02_expr" => {
            for i in 0..64u8 {
                put(format!("e{}", i), vec![i, i.wrapping_mul(7), i.wrapping_mul(13) % 13, 200 + i % 50, i % 19, 77, 3, 250, 19, 140])?;
            }
        }
        "c04_edits" => {
            put("basic".into(), vec![0, 10, 0, 128, 5, 0x10, 10, 10, 0, 14, 3, 0x20, 18, 0, 0, 20, 0, 0, 0, 207, 1, 0, 250, 0, 255, 255, 255, 255, 255, 255, 255, 255, 20, 0, 0])?;
            for i in 0..32u8 {
                put(format!("h{}", i), (0..30).map(|k| i.wrapping_mul(31).wrapping_add((k as u8).wrapping_mul(17))).collect())?;
            }
        }
        "c12_perturb" => {
            for (i, l) in lines.iter().enumerate().take(200) {
                let mut v = vec![];
                for (k, part) in l.split('"').enumerate() {
                    v.push(0);
                    v.push(if k % 2 == 0 { 1 } else { 5 });
                    v.extend(part.as_bytes());
                }
                put(format!("line{}", i), v)?;
            }
            put("sci".into(), b"\x01X=5e-3+SCORE<=2\x00\x05a b\x00\x07 tail".to_vec())?;
        }
        "c19_page" => {
            let mut s: Vec<u8> = vec![7];
            s.extend(b"10 PRINT \"x\" : INPUT Q\n20 GOTO 10");
            for l in ["RUN", "5", "abc", "NEW", "LIST", "TRACE", "20 STOP", "CONT"] {
                s.extend([0, 0]);
                s.extend(l.as_bytes());
                s.extend([0, 5, 1, 1, 0, 4]);
            }
            put("page0".into(), s)?;
            put("page1".into(), b"\x00 10 GOTO 10\x00\x00RUN\x00\x05aaa\x00\x04\x00\x00CONT\x00\x05\x00\x00\xf0\x9f\x92\xa5".to_vec())?;
        }
        _ => {
            // sessions: a few programs typed, RUN, replies, breaks
            let mut s: Vec<u8> = vec![];
            for l in ["10 INPUT X", "20 PRINT X*2 : IF X < 3 THEN 10", "30 FOR I = 1 TO 3 : GOSUB 100 : NEXT I", "40 END", "100 PRINT I; : RETURN"] {
                s.push(0);
                s.push(0);
                s.extend(l.as_bytes());
            }
            s.extend([0, 1]);
            s.extend(b"RUN");
            s.extend([0, 3]);
            s.extend(b"1");
            s.extend([0, 4, 20, 0, 5, 0, 1]);
            s.extend(b"CONT");
            s.extend([0, 4, 40]);
            put("session0".into(), s)?;
            for (i, l) in crate::props::c01::BOUNDARY_LINES.iter().enumerate() {
                let mut s = vec![0u8];
                s.extend(l.as_bytes());
                s.extend([0, 1]);
                s.extend(b"RUN");
                s.extend([0, 4, 30]);
                put(format!("boundary{}", i), s)?;
            }
        }
    }
    Ok(n)
}
