//! Text-level generators: atom sequences for the tokenizer properties,
//! document texts for the analyzer / language-server properties, hostile
//! lines for the crash property.

use proptest::prelude::*;

/// Atoms for C13 (ranges) and C14 (adjacency): every token class, blanks,
/// multi-byte characters, error-producing characters.
pub const ATOMS: &[&str] = &[
    "PRINT", "GOTO", "go to", "IF", "THEN", "TO", "OR", "REM", "DATA", "X", "x1", "A$", "SCORE", "1", "23", ".5", "1 2", "<", "=", ">",
    "<=", "< >", "(", ")", ",", ":", ";", "?", "\"", "\"ab\"", "\"é\"", " ", "\t", "é", "😊", "%", ".", "-", "NOT", "FOR",
];

/// Every keyword of the language (for generators that need them all).
pub const KEYWORDS: &[&str] = &[
    "DIM", "LET", "PRINT", "INPUT", "GOTO", "GOSUB", "RETURN", "IF", "THEN", "ELSE", "AND", "OR", "NOT", "END", "STOP", "FOR", "TO",
    "NEXT", "STEP", "READ", "RESTORE", "DEF", "REM", "DATA",
];

pub const OPERATORS: &[&str] = &[":", ";", ",", "?", "(", ")", "+", "-", "*", "/", "^", "=", "<>", "<", "<=", ">", ">="];

pub fn atom_line(max_len: usize) -> impl Strategy<Value = String> {
    prop::collection::vec(0..ATOMS.len(), 0..max_len).prop_map(|v| v.into_iter().map(|i| ATOMS[i]).collect::<String>())
}

/// The i-th string (in length-then-lexicographic order) over ATOMS with
/// exactly `len` atoms.
pub fn atom_string(len: u32, mut i: u64) -> String {
    let n = ATOMS.len() as u64;
    let mut parts = vec![];
    for _ in 0..len {
        parts.push(ATOMS[(i % n) as usize]);
        i /= n;
    }
    parts.reverse();
    parts.concat()
}

pub fn atom_count(len: u32) -> u64 {
    (ATOMS.len() as u64).pow(len)
}

pub fn is_basic_blank(b: u8) -> bool {
    // the documented notion: spaces and tabs (and the other ASCII blanks a
    // line can carry) are ignored; a newline is not part of a line
    b.is_ascii_whitespace() && b != b'\n'
}

/// The repository's two sample programs as typed lines (blank lines dropped).
pub fn repo_program(which: usize) -> Vec<String> {
    let f = ["/repo/programs/chemist.bas", "/repo/programs/hamurabi.bas"][which % 2];
    std::fs::read_to_string(f).unwrap_or_default().lines().map(|l| l.trim_end_matches('\r').to_string()).filter(|l| !l.trim().is_empty()).collect()
}

/// Reply scripts for the sample programs (they ask for numbers).
pub fn numeric_replies() -> impl Strategy<Value = Vec<String>> {
    const POOL: &[&str] = &["0", "1", "5", "10", "20", "100", "1000", "2.5", "-1", "abc", "", "3,4", "7:8", " 12 "];
    prop::collection::vec((0..POOL.len()).prop_map(|i| POOL[i].to_string()), 0..40)
}

/// Lines of the repository's sample programs and tests (seed corpus).
pub fn repo_lines() -> Vec<String> {
    let mut out = vec![];
    for f in ["/repo/programs/chemist.bas", "/repo/programs/hamurabi.bas"] {
        if let Ok(t) = std::fs::read_to_string(f) {
            out.extend(t.lines().map(|l| l.to_string()));
        }
    }
    for f in ["/repo/abasic-core/tests/interpreter_test.rs", "/repo/abasic-core/tests/analyzer_test.rs", "/repo/abasic-core/src/tokenizer.rs"] {
        if let Ok(t) = std::fs::read_to_string(f) {
            // string literals that look like BASIC lines
            for cap in t.split('"').skip(1).step_by(2) {
                if cap.len() >= 3 && cap.len() < 200 && !cap.contains('\\') {
                    out.push(cap.to_string());
                }
            }
        }
    }
    out
}

// ------------------------------------------------------------------ documents

use crate::ast::render_program;
use crate::gen::{self, GenCfg};

#[derive(Debug, Clone)]
enum DocMut {
    BlankLine(u16),
    Unnumbered(u16, u8),
    BareNumber(u16, u16),
    Duplicate(u16, u16, u8),
    Untokenizable(u16, u8),
    Boundary(u16, u8),
    Garbage(u16, String),
    Swap(u16, u16),
    NonAscii(u16, u8),
    Truncate(u16, u16),
    Prefix(u16, u8),
}

fn idx(draw: u16, len: usize) -> usize {
    ((draw as usize) * len) >> 16
}

const UNNUMBERED: &[&str] = &["PRINT 1", "REM no number", "  X = 2", "é", "RUN", "LIST", "\"", "GOTO 10", "x", "   "];
const BAD_TAILS: &[&str] = &[" % 1", " \"open", " 1.2.3", " é", " 😊 = 1", " PRINT \"é", " X = 1 !", " &"];
const BOUNDARY_LINES: &[&str] = &[
    "18446744073709551615 PRINT 1",
    "18446744073709551614 GOTO 18446744073709551615",
    "18446744073709551616 PRINT 2",
    "0 REM zero",
    "00010 PRINT 3",
    "99999999999999999999999 X = 1",
    "9223372036854775808 GOSUB 0",
    "4294967296 NEXT Q",
];
/// Text an editor, a paste or an encoding may put in front of a line (byte order
/// mark, indentation, no-break / zero-width / ideographic spaces).
const LINE_PREFIXES: &[&str] = &["\u{feff}", " ", "\t", "   ", "\u{a0}", "\u{200b}", "\u{3000}", "\u{feff} "];
const NON_ASCII: &[&str] = &[" : REM é ü 😊", " : PRINT \"é\" + 1", " : Q$ = \"😊\" : GOTO 7", " : PRINT \"日本\"; X9", " : REM ñ"];

fn doc_mut() -> impl Strategy<Value = DocMut> {
    prop_oneof![
        2 => any::<u16>().prop_map(DocMut::BlankLine),
        2 => (any::<u16>(), 0u8..(UNNUMBERED.len() as u8)).prop_map(|(a, b)| DocMut::Unnumbered(a, b)),
        3 => (any::<u16>(), any::<u16>()).prop_map(|(a, b)| DocMut::BareNumber(a, b)),
        5 => (any::<u16>(), any::<u16>(), 0u8..5).prop_map(|(a, b, c)| DocMut::Duplicate(a, b, c)),
        4 => (any::<u16>(), 0u8..(BAD_TAILS.len() as u8)).prop_map(|(a, b)| DocMut::Untokenizable(a, b)),
        2 => (any::<u16>(), 0u8..(BOUNDARY_LINES.len() as u8)).prop_map(|(a, b)| DocMut::Boundary(a, b)),
        2 => (any::<u16>(), "\\PC{0,12}").prop_map(|(a, b)| DocMut::Garbage(a, b)),
        1 => (any::<u16>(), any::<u16>()).prop_map(|(a, b)| DocMut::Swap(a, b)),
        3 => (any::<u16>(), 0u8..(NON_ASCII.len() as u8)).prop_map(|(a, b)| DocMut::NonAscii(a, b)),
        2 => (any::<u16>(), any::<u16>()).prop_map(|(a, b)| DocMut::Truncate(a, b)),
        2 => (any::<u16>(), 0u8..(LINE_PREFIXES.len() as u8)).prop_map(|(a, b)| DocMut::Prefix(a, b)),
    ]
}

fn apply_doc_muts(mut lines: Vec<String>, muts: Vec<DocMut>) -> Vec<String> {
    for m in muts {
        let n = lines.len();
        match m {
            DocMut::BlankLine(p) => lines.insert(idx(p, n + 1), String::new()),
            DocMut::Unnumbered(p, k) => lines.insert(idx(p, n + 1), UNNUMBERED[k as usize].to_string()),
            DocMut::BareNumber(p, of) => {
                if n > 0 {
                    let num = line_number_text(&lines[idx(of, n)]);
                    lines.insert(idx(p, n + 1), num);
                }
            }
            DocMut::Duplicate(p, of, variant) => {
                if n > 0 {
                    let src = lines[idx(of, n)].clone();
                    let num = line_number_text(&src);
                    let new = match variant {
                        0 => src,
                        1 => format!("{} PRINT \"dup\"", num),
                        2 => format!("{} X = 1 %", num),
                        3 => format!("{} PRINT \"é", num),
                        _ => format!("{} PRINT 1 +", num),
                    };
                    lines.insert(idx(p, n + 1), new);
                }
            }
            DocMut::Untokenizable(p, k) => {
                if n > 0 {
                    let i = idx(p, n);
                    lines[i].push_str(BAD_TAILS[k as usize]);
                }
            }
            DocMut::Boundary(p, k) => lines.insert(idx(p, n + 1), BOUNDARY_LINES[k as usize].to_string()),
            DocMut::Garbage(p, g) => lines.insert(idx(p, n + 1), g),
            DocMut::Swap(a, b) => {
                if n > 1 {
                    lines.swap(idx(a, n), idx(b, n));
                }
            }
            DocMut::NonAscii(p, k) => {
                if n > 0 {
                    let i = idx(p, n);
                    lines[i].push_str(NON_ASCII[k as usize]);
                }
            }
            DocMut::Prefix(p, k) => {
                if n > 0 {
                    // half of the draws hit the first line of the file
                    let i = if p % 2 == 0 { 0 } else { idx(p, n) };
                    lines[i].insert_str(0, LINE_PREFIXES[k as usize]);
                }
            }
            DocMut::Truncate(p, at) => {
                if n > 0 {
                    let i = idx(p, n);
                    let mut cut = idx(at, lines[i].len() + 1);
                    while !lines[i].is_char_boundary(cut) {
                        cut -= 1;
                    }
                    lines[i].truncate(cut);
                }
            }
        }
    }
    lines
}

fn line_number_text(line: &str) -> String {
    let t = line.trim_start();
    let digits: String = t.chars().take_while(|c| c.is_ascii_digit()).collect();
    if digits.is_empty() {
        "10".to_string()
    } else {
        digits
    }
}

/// Source-file texts: a generated program with document-level mutations.
pub fn document() -> impl Strategy<Value = String> {
    let cfg = GenCfg { max_blocks: 8, ..GenCfg::C03.with_input() };
    (gen::program(cfg), gen::style(), prop::collection::vec(doc_mut(), 0..8), 0u8..10).prop_map(|(p, st, muts, crlf)| {
        let lines = apply_doc_muts(render_program(&p, st), muts);
        match crlf {
            0 => lines.join("\r\n"),
            1 => lines.iter().enumerate().map(|(i, l)| if i % 2 == 0 { format!("{}\r", l) } else { l.clone() }).collect::<Vec<_>>().join("\n"),
            2 => format!("{}\n", lines.join("\n")),
            _ => lines.join("\n"),
        }
    })
}

/// Character-level mutations of the repository's sample programs.
pub fn mutated_repo_program() -> impl Strategy<Value = String> {
    (0usize..2, prop::collection::vec((any::<u16>(), 0u8..6, any::<char>()), 1..10)).prop_map(|(which, muts)| {
        let f = ["/repo/programs/chemist.bas", "/repo/programs/hamurabi.bas"][which];
        let text = std::fs::read_to_string(f).unwrap_or_default();
        let mut lines: Vec<String> = text.lines().map(|l| l.to_string()).collect();
        for (p, kind, ch) in muts {
            if lines.is_empty() {
                break;
            }
            let i = idx(p, lines.len());
            let ch = if ch == '\n' { ' ' } else { ch };
            let l = &mut lines[i];
            let mut at = idx(p.wrapping_mul(31), l.len() + 1);
            while !l.is_char_boundary(at) {
                at -= 1;
            }
            match kind {
                0 => l.insert(at, ch),
                1 => {
                    if at < l.len() {
                        l.remove(at);
                    }
                }
                2 => l.truncate(at),
                3 => {
                    let d = l.clone();
                    lines.insert(i, d);
                }
                4 => {
                    let num = line_number_text(l);
                    lines.push(num);
                }
                _ => l.insert(at, '"'),
            }
        }
        lines.join("\n")
    })
}
