//! Text-level generators: atom sequences for the tokenizer properties,
//! document texts for the analyzer / language-server properties, hostile
//! lines for the crash property.

use proptest::prelude::*;

/// Atoms for C13 (ranges) and C14 (adjacency): every token class, blanks,
/// multi-byte characters, error-producing characters.
pub const ATOMS: &[&str] = &[
    "PRINT", "GOTO", "go to", "IF", "THEN", "TO", "OR", "REM", "DATA", "X", "x1", "A$", "SCORE", "1", "23", ".5", "1 2", "<", "=", ">",
    "<=", "< >", "(", ")", ",", ":", ";", "?", "\"", "\"ab\"", "\"é\"", " ", "\t", "é", "😊", "%", ".", "-", "NOT", "FOR",
];

/// Every keyword of the language (for generators that need them all).
pub const KEYWORDS: &[&str] = &[
    "DIM", "LET", "PRINT", "INPUT", "GOTO", "GOSUB", "RETURN", "IF", "THEN", "ELSE", "AND", "OR", "NOT", "END", "STOP", "FOR", "TO",
    "NEXT", "STEP", "READ", "RESTORE", "DEF", "REM", "DATA",
];

pub const OPERATORS: &[&str] = &[":", ";", ",", "?", "(", ")", "+", "-", "*", "/", "^", "=", "<>", "<", "<=", ">", ">="];

pub fn atom_line(max_len: usize) -> impl Strategy<Value = String> {
    prop::collection::vec(0..ATOMS.len(), 0..max_len).prop_map(|v| v.into_iter().map(|i| ATOMS[i]).collect::<String>())
}

/// The i-th string (in length-then-lexicographic order) over ATOMS with
/// exactly `len` atoms.
pub fn atom_string(len: u32, mut i: u64) -> String {
    let n = ATOMS.len() as u64;
    let mut parts = vec![];
    for _ in 0..len {
        parts.push(ATOMS[(i % n) as usize]);
        i /= n;
    }
    parts.reverse();
    parts.concat()
}

pub fn atom_count(len: u32) -> u64 {
    (ATOMS.len() as u64).pow(len)
}

pub fn is_basic_blank(b: u8) -> bool {
    // the documented notion: spaces and tabs (and the other ASCII blanks a
    // line can carry) are ignored; a newline is not part of a line
    b.is_ascii_whitespace() && b != b'\n'
}

/// Lines of the repository's sample programs and tests (seed corpus).
pub fn repo_lines() -> Vec<String> {
    let mut out = vec![];
    for f in ["/repo/programs/chemist.bas", "/repo/programs/hamurabi.bas"] {
        if let Ok(t) = std::fs::read_to_string(f) {
            out.extend(t.lines().map(|l| l.to_string()));
        }
    }
    for f in ["/repo/abasic-core/tests/interpreter_test.rs", "/repo/abasic-core/tests/analyzer_test.rs", "/repo/abasic-core/src/tokenizer.rs"] {
        if let Ok(t) = std::fs::read_to_string(f) {
            // string literals that look like BASIC lines
            for cap in t.split('"').skip(1).step_by(2) {
                if cap.len() >= 3 && cap.len() < 200 && !cap.contains('\\') {
                    out.push(cap.to_string());
                }
            }
        }
    }
    out
}
