//! Session driver: owns an `abasic_core::Interpreter`, applies host operations
//! while respecting the turn-taking protocol, and records a transcript.

use crate::core::catch;
use abasic_core::{
    Interpreter, InterpreterError, InterpreterOutput, InterpreterState, OutOfMemoryError,
    SyntaxError, TracedInterpreterError,
};
use serde::{Deserialize, Serialize};

#[derive(Debug, Clone, PartialEq, Serialize, Deserialize)]
pub enum Out {
    Print(String),
    Break(Option<u64>),
    Warning(String, Option<u64>),
    Trace(u64),
    ExtraIgnored,
    Reenter,
}

impl Out {
    pub fn from_core(o: &InterpreterOutput) -> Out {
        match o {
            InterpreterOutput::Print(s) => Out::Print(s.clone()),
            InterpreterOutput::Break(l) => Out::Break(*l),
            InterpreterOutput::Warning(s, l) => Out::Warning(s.clone(), *l),
            InterpreterOutput::Trace(l) => Out::Trace(*l),
            InterpreterOutput::ExtraIgnored => Out::ExtraIgnored,
            InterpreterOutput::Reenter => Out::Reenter,
        }
    }
}

#[derive(Debug, Clone, Copy, PartialEq, Eq, Hash, Serialize, Deserialize)]
pub enum ErrKind {
    SyntaxTokenization,
    SyntaxUnexpectedToken,
    SyntaxExpectedToken,
    SyntaxUnexpectedEnd,
    TypeMismatch,
    DataTypeMismatch,
    UndefinedStatement,
    StackOverflow,
    ArrayTooLarge,
    OutOfData,
    ReturnWithoutGosub,
    NextWithoutFor,
    BadSubscript,
    IllegalQuantity,
    Unimplemented,
    DivisionByZero,
    RedimensionedArray,
    CannotContinue,
    IllegalDirect,
}

impl ErrKind {
    pub fn of(e: &InterpreterError) -> ErrKind {
        match e {
            InterpreterError::Syntax(SyntaxError::Tokenization(_)) => ErrKind::SyntaxTokenization,
            InterpreterError::Syntax(SyntaxError::UnexpectedToken) => ErrKind::SyntaxUnexpectedToken,
            InterpreterError::Syntax(SyntaxError::ExpectedToken(_)) => ErrKind::SyntaxExpectedToken,
            InterpreterError::Syntax(SyntaxError::UnexpectedEndOfInput) => ErrKind::SyntaxUnexpectedEnd,
            InterpreterError::TypeMismatch => ErrKind::TypeMismatch,
            InterpreterError::DataTypeMismatch => ErrKind::DataTypeMismatch,
            InterpreterError::UndefinedStatement => ErrKind::UndefinedStatement,
            InterpreterError::OutOfMemory(OutOfMemoryError::StackOverflow) => ErrKind::StackOverflow,
            InterpreterError::OutOfMemory(OutOfMemoryError::ArrayTooLarge) => ErrKind::ArrayTooLarge,
            InterpreterError::OutOfData => ErrKind::OutOfData,
            InterpreterError::ReturnWithoutGosub => ErrKind::ReturnWithoutGosub,
            InterpreterError::NextWithoutFor => ErrKind::NextWithoutFor,
            InterpreterError::BadSubscript => ErrKind::BadSubscript,
            InterpreterError::IllegalQuantity => ErrKind::IllegalQuantity,
            InterpreterError::Unimplemented => ErrKind::Unimplemented,
            InterpreterError::DivisionByZero => ErrKind::DivisionByZero,
            InterpreterError::RedimensionedArray => ErrKind::RedimensionedArray,
            InterpreterError::CannotContinue => ErrKind::CannotContinue,
            InterpreterError::IllegalDirect => ErrKind::IllegalDirect,
        }
    }
    pub fn name(self) -> &'static str {
        match self {
            ErrKind::SyntaxTokenization => "err:syntax-tokenization",
            ErrKind::SyntaxUnexpectedToken => "err:syntax-unexpected-token",
            ErrKind::SyntaxExpectedToken => "err:syntax-expected-token",
            ErrKind::SyntaxUnexpectedEnd => "err:syntax-unexpected-end",
            ErrKind::TypeMismatch => "err:type-mismatch",
            ErrKind::DataTypeMismatch => "err:data-type-mismatch",
            ErrKind::UndefinedStatement => "err:undefined-statement",
            ErrKind::StackOverflow => "err:stack-overflow",
            ErrKind::ArrayTooLarge => "err:array-too-large",
            ErrKind::OutOfData => "err:out-of-data",
            ErrKind::ReturnWithoutGosub => "err:return-without-gosub",
            ErrKind::NextWithoutFor => "err:next-without-for",
            ErrKind::BadSubscript => "err:bad-subscript",
            ErrKind::IllegalQuantity => "err:illegal-quantity",
            ErrKind::Unimplemented => "err:unimplemented",
            ErrKind::DivisionByZero => "err:division-by-zero",
            ErrKind::RedimensionedArray => "err:redimensioned-array",
            ErrKind::CannotContinue => "err:cannot-continue",
            ErrKind::IllegalDirect => "err:illegal-direct",
        }
    }
    pub fn is_syntax(self) -> bool {
        matches!(
            self,
            ErrKind::SyntaxTokenization
                | ErrKind::SyntaxUnexpectedToken
                | ErrKind::SyntaxExpectedToken
                | ErrKind::SyntaxUnexpectedEnd
        )
    }
}

#[derive(Debug, Clone, PartialEq, Serialize, Deserialize)]
pub struct ErrInfo {
    pub kind: ErrKind,
    /// The numbered line the error is attributed to (its structured location).
    pub line: Option<u64>,
    pub text: String,
    pub caret: Vec<String>,
    /// The error carries a location at all (a program line or a position in the typed line).
    #[serde(default)]
    pub located: bool,
}

/// Extracts the " IN <line>" suffix of an error's rendering.
pub fn line_of_error_text(text: &str) -> Option<u64> {
    let first = text.lines().next().unwrap_or("");
    let (_, tail) = first.rsplit_once(" IN ")?;
    tail.trim().parse::<u64>().ok()
}

pub fn err_info(interp: &Interpreter, err: &TracedInterpreterError, last_line: Option<&str>) -> ErrInfo {
    let text = err.to_string();
    let caret = err.get_line_with_pointer_caret(interp, last_line);
    ErrInfo {
        kind: ErrKind::of(&err.error),
        // the structured location, not the " IN n" suffix of the message text
        line: err.location.and_then(|l| l.as_numbered()).map(|n| n.line),
        text,
        caret,
        located: err.location.is_some(),
    }
}

#[derive(Debug, Clone, Copy, PartialEq, Eq, Hash, Serialize, Deserialize)]
pub enum St {
    Idle,
    Running,
    AwaitingInput,
}

/// Result of one host call.
#[derive(Debug, Clone, PartialEq)]
pub struct CallResult {
    pub err: Option<ErrInfo>,
    pub out: Vec<Out>,
    pub state: St,
    pub replaced: bool,
}

pub struct Sess {
    pub interp: Interpreter,
    pub warnings: bool,
    pub tracing: bool,
    pub seed: Option<u64>,
    pub calls: u64,
    /// The numbered line the cursor stood on before the latest
    /// `continue_evaluating` call (None: an immediate line).
    pub line_before_last_cont: Option<u64>,
}

/// A panic (or protocol breach) observed while driving the interpreter.
#[derive(Debug, Clone)]
pub struct Crash(pub String);

impl Sess {
    pub fn new() -> Sess {
        Sess {
            interp: Interpreter::default(),
            warnings: false,
            tracing: false,
            seed: None,
            calls: 0,
            line_before_last_cont: None,
        }
    }

    pub fn with_interp(interp: Interpreter) -> Sess {
        Sess {
            interp,
            warnings: false,
            tracing: false,
            seed: None,
            calls: 0,
            line_before_last_cont: None,
        }
    }

    pub fn set_options(&mut self, warnings: bool, tracing: bool) {
        self.warnings = warnings;
        self.tracing = tracing;
        self.interp.enable_warnings = warnings;
        self.interp.enable_tracing = tracing;
    }

    pub fn randomize(&mut self, seed: u64) {
        self.seed = Some(seed);
        self.interp.randomize(seed);
    }

    pub fn state(&self) -> Result<St, Crash> {
        match self.interp.get_state() {
            InterpreterState::Idle => Ok(St::Idle),
            InterpreterState::Running => Ok(St::Running),
            InterpreterState::AwaitingInput => Ok(St::AwaitingInput),
            InterpreterState::NewInterpreterRequested => {
                Err(Crash("NewInterpreterRequested visible between calls".into()))
            }
        }
    }

    fn finish(&mut self, res: Result<Result<(), TracedInterpreterError>, String>, last_line: Option<&str>) -> Result<CallResult, Crash> {
        self.calls += 1;
        let res = res.map_err(|p| Crash(format!("panic: {}", p)))?;
        let out: Vec<Out> = self.interp.take_output().iter().map(Out::from_core).collect();
        let mut replaced = false;
        let err = match res {
            Ok(()) => None,
            Err(e) => {
                let interp = &self.interp;
                Some(catch(|| err_info(interp, &e, last_line)).map_err(|p| Crash(format!("panic while rendering error: {}", p)))?)
            }
        };
        if self.interp.get_state() == InterpreterState::NewInterpreterRequested {
            // Both front ends resolve this by replacing the interpreter.
            let mut fresh = Interpreter::default();
            fresh.enable_warnings = self.warnings;
            fresh.enable_tracing = self.tracing;
            if let Some(s) = self.seed {
                fresh.randomize(s);
            }
            self.interp = fresh;
            replaced = true;
        }
        let state = self.state()?;
        Ok(CallResult { err, out, state, replaced })
    }

    /// `start_evaluating(line)`; legal only when idle.
    pub fn line(&mut self, text: &str) -> Result<CallResult, Crash> {
        debug_assert_eq!(self.interp.get_state(), InterpreterState::Idle);
        let interp = &mut self.interp;
        let res = catch(|| interp.start_evaluating(text));
        self.finish(res, Some(text))
    }

    /// `continue_evaluating()`; legal only when running.
    pub fn cont(&mut self) -> Result<CallResult, Crash> {
        debug_assert_eq!(self.interp.get_state(), InterpreterState::Running);
        self.line_before_last_cont = self.interp.verif_current_line();
        let interp = &mut self.interp;
        let res = catch(|| interp.continue_evaluating());
        self.finish(res, None)
    }

    /// `provide_input(text)`; legal only when awaiting input.
    pub fn reply(&mut self, text: &str) -> Result<CallResult, Crash> {
        debug_assert_eq!(self.interp.get_state(), InterpreterState::AwaitingInput);
        let interp = &mut self.interp;
        let res = catch(|| {
            interp.provide_input(text.to_string());
            Ok(())
        });
        self.finish(res, None)
    }

    /// `break_at_current_location()`; legal when running or awaiting input.
    pub fn brk(&mut self) -> Result<CallResult, Crash> {
        let interp = &mut self.interp;
        let res = catch(|| {
            interp.break_at_current_location();
            Ok(())
        });
        self.finish(res, None)
    }

    /// Keeps calling `continue_evaluating` while running, up to `budget`
    /// calls. Stops at idle, at an input request, or at an error.
    pub fn run_on(&mut self, budget: &mut u64, sink: &mut Vec<Out>) -> Result<RunStop, Crash> {
        loop {
            match self.state()? {
                St::Idle => return Ok(RunStop::Idle),
                St::AwaitingInput => return Ok(RunStop::Input),
                St::Running => {
                    if *budget == 0 {
                        return Ok(RunStop::Budget);
                    }
                    *budget -= 1;
                    let r = self.cont()?;
                    sink.extend(r.out);
                    if let Some(e) = r.err {
                        return Ok(RunStop::Error(e));
                    }
                }
            }
        }
    }

    /// Submits a line and runs until idle / input / error / budget.
    pub fn line_and_run(&mut self, text: &str, budget: &mut u64, sink: &mut Vec<Out>) -> Result<RunStop, Crash> {
        let r = self.line(text)?;
        sink.extend(r.out);
        if let Some(e) = r.err {
            return Ok(RunStop::Error(e));
        }
        self.run_on(budget, sink)
    }

    /// Enters program text line by line (each must be accepted without error).
    pub fn enter_program(&mut self, lines: &[String]) -> Result<Result<(), ErrInfo>, Crash> {
        for l in lines {
            let r = self.line(l)?;
            if let Some(e) = r.err {
                return Ok(Err(e));
            }
        }
        Ok(Ok(()))
    }

    pub fn list(&mut self) -> Result<Vec<String>, Crash> {
        let r = self.line("LIST")?;
        Ok(r.out
            .into_iter()
            .filter_map(|o| if let Out::Print(s) = o { Some(s) } else { None })
            .collect())
    }
}

#[derive(Debug, Clone, PartialEq)]
pub enum RunStop {
    Idle,
    Input,
    Budget,
    Error(ErrInfo),
}

/// Concatenated text of all Print records.
pub fn printed(out: &[Out]) -> String {
    let mut s = String::new();
    for o in out {
        if let Out::Print(p) = o {
            s.push_str(p);
        }
    }
    s
}

// ------------------------------------------------------------------ intents

/// What a generated history *wants* to do; the driver maps an intent that is
/// illegal in the current state to the nearest legal host call, so that every
/// generated history respects the turn-taking protocol and none is discarded.
#[derive(Debug, Clone, PartialEq, Serialize, Deserialize)]
pub enum Intent {
    /// Submit a line (idle), else: answer with it (awaiting input) / continue one turn (running).
    Line(String),
    /// Continue for up to n turns while running.
    Continue(u16),
    /// Answer an input request; when idle the text is submitted as a line.
    Reply(String),
    /// Break in (running or awaiting input); no-op when idle.
    Break,
    /// Seed the random number generator (legal in every state).
    Seed(u64),
}

#[derive(Debug, Clone, Copy, PartialEq, Eq, Hash, Serialize, Deserialize)]
pub enum CallKind {
    Line,
    Continue,
    Reply,
    Break,
}

impl Sess {
    /// Applies one intent; returns the host calls actually made with their results.
    pub fn apply(&mut self, intent: &Intent) -> Result<Vec<(CallKind, Option<String>, CallResult)>, Crash> {
        let mut calls = vec![];
        match intent {
            Intent::Seed(s) => self.randomize(*s),
            Intent::Break => {
                if self.state()? != St::Idle {
                    let r = self.brk()?;
                    calls.push((CallKind::Break, None, r));
                }
            }
            Intent::Continue(n) => {
                let mut n = *n;
                while n > 0 && self.state()? == St::Running {
                    n -= 1;
                    let r = self.cont()?;
                    let stop = r.err.is_some();
                    calls.push((CallKind::Continue, None, r));
                    if stop {
                        break;
                    }
                }
            }
            Intent::Line(t) | Intent::Reply(t) => match self.state()? {
                St::Idle => {
                    let r = self.line(t)?;
                    calls.push((CallKind::Line, Some(t.clone()), r));
                }
                St::AwaitingInput => {
                    let r = self.reply(t)?;
                    calls.push((CallKind::Reply, Some(t.clone()), r));
                }
                St::Running => {
                    let r = self.cont()?;
                    calls.push((CallKind::Continue, None, r));
                }
            },
        }
        Ok(calls)
    }
}

/// Well-formedness of the caret rendering of an error (C01 clause 3).
pub fn caret_well_formed(e: &ErrInfo) -> Result<(), String> {
    match e.caret.len() {
        0 => Ok(()),
        2 => {
            let first = &e.caret[0];
            let second = &e.caret[1];
            let blanks = second.chars().take_while(|c| *c == ' ').count();
            let carets = second.chars().skip(blanks).take_while(|c| *c == '^').count();
            if blanks + carets != second.chars().count() || carets == 0 {
                return Err(format!("caret line {:?} is not blanks followed by carets", second));
            }
            if blanks > first.len() + 1 {
                return Err(format!("caret at column {} beyond the source line {:?}", blanks, first));
            }
            Ok(())
        }
        n => Err(format!("{} lines rendered for an error", n)),
    }
}
