use abv::core::{install_quiet_panic_hook, replay_file, run_property, Ctx, Tier, Verdict};
use std::path::PathBuf;

fn usage() -> ! {
    eprintln!("usage: abv <Cxx> [--tier quick|thorough] [--seed N] [--replay FILE] [--family LABEL] [--verif DIR]");
    std::process::exit(3);
}

fn main() {
    let args: Vec<String> = std::env::args().skip(1).collect();
    if args.is_empty() {
        usage();
    }
    if args[0] == "--child" {
        std::process::exit(abv::child::main(&args[1..]));
    }
    let id = args[0].clone();
    let mut tier = match std::env::var("VERIF_TIER").ok().as_deref() {
        Some("thorough") => Tier::Thorough,
        _ => Tier::Quick,
    };
    let mut seed: u64 = std::env::var("VERIF_SEED")
        .ok()
        .and_then(|s| s.trim().parse::<i128>().ok())
        .map(|v| v as u64)
        .unwrap_or(0);
    let mut replay: Option<PathBuf> = None;
    let mut family: Option<String> = None;
    let mut verif = PathBuf::from(std::env::var("VERIF_DIR").unwrap_or_else(|_| "/verif".into()));
    let mut i = 1;
    while i < args.len() {
        match args[i].as_str() {
            "--tier" => {
                i += 1;
                tier = match args.get(i).map(|s| s.as_str()) {
                    Some("quick") => Tier::Quick,
                    Some("thorough") => Tier::Thorough,
                    _ => usage(),
                };
            }
            "--seed" => {
                i += 1;
                seed = args.get(i).and_then(|s| s.parse::<i128>().ok()).map(|v| v as u64).unwrap_or_else(|| usage());
            }
            "--replay" => {
                i += 1;
                replay = Some(PathBuf::from(args.get(i).unwrap_or_else(|| usage())));
            }
            "--family" => {
                i += 1;
                family = Some(args.get(i).unwrap_or_else(|| usage()).clone());
            }
            "--verif" => {
                i += 1;
                verif = PathBuf::from(args.get(i).unwrap_or_else(|| usage()));
            }
            _ => usage(),
        }
        i += 1;
    }
    std::env::set_var("RUST_BACKTRACE", "0");
    install_quiet_panic_hook();
    let Some(prop) = abv::props::property(&id) else {
        eprintln!("unknown property {}", id);
        std::process::exit(3);
    };
    let ctx = Ctx::new(&id, tier, seed, &verif);
    if let Some(path) = replay {
        match replay_file(&ctx, &prop, &path) {
            Ok(Verdict::Pass) => {
                println!("REPLAY-PASS property={} file={}", id, path.display());
                std::process::exit(0);
            }
            Ok(Verdict::Fail { key, detail }) => {
                if let Some(k) = ctx.is_known(&key) {
                    println!("KNOWN-FINDING: property={} key={} {}", id, key, k.what);
                    std::process::exit(0);
                }
                println!("VIOLATION property={} replay={}", id, path.display());
                println!("  key={} detail={}", key, detail.replace('\n', "\\n"));
                std::process::exit(1);
            }
            Err(e) => {
                eprintln!("cannot replay {}: {}", path.display(), e);
                std::process::exit(3);
            }
        }
    }
    // Spawn on a big stack: some preludes recurse.
    drop(prop);
    let id_for_msg = id.clone();
    let code = std::thread::Builder::new()
        .stack_size(256 << 20)
        .spawn(move || {
            let prop = abv::props::property(&id).unwrap();
            run_property(&ctx, &prop, family.as_deref())
        })
        .unwrap()
        .join()
        .unwrap_or_else(|_| {
            // a panic of the harness itself (not of the code under test) outside a worker
            println!("INFRASTRUCTURE property={} the harness panicked: {}", id_for_msg, abv::core::last_panic_message());
            3
        });
    std::process::exit(code);
}
