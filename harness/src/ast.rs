//! Structured BASIC programs and their rendering to text.
//!
//! Rendering follows the *property's* precedence table (C02), not the code:
//! unary (+, -, NOT) binds tightest and applies to a primary, then ^, then
//! * /, then + -, then the six comparisons, then AND, then OR; all binary
//! operators group left to right.

use serde::{Deserialize, Serialize};

#[derive(Debug, Clone, Copy, PartialEq, Eq, Hash, Serialize, Deserialize)]
pub enum UnOp {
    Plus,
    Neg,
    Not,
}

#[derive(Debug, Clone, Copy, PartialEq, Eq, Hash, Serialize, Deserialize)]
pub enum BinOp {
    Pow,
    Mul,
    Div,
    Add,
    Sub,
    Eq,
    Ne,
    Lt,
    Le,
    Gt,
    Ge,
    And,
    Or,
}

pub const ALL_BINOPS: [BinOp; 13] = [
    BinOp::Pow,
    BinOp::Mul,
    BinOp::Div,
    BinOp::Add,
    BinOp::Sub,
    BinOp::Eq,
    BinOp::Ne,
    BinOp::Lt,
    BinOp::Le,
    BinOp::Gt,
    BinOp::Ge,
    BinOp::And,
    BinOp::Or,
];
pub const ALL_UNOPS: [UnOp; 3] = [UnOp::Plus, UnOp::Neg, UnOp::Not];

impl BinOp {
    /// Binding strength per the property statement (higher binds tighter).
    pub fn prec(self) -> u8 {
        match self {
            BinOp::Or => 1,
            BinOp::And => 2,
            BinOp::Eq | BinOp::Ne | BinOp::Lt | BinOp::Le | BinOp::Gt | BinOp::Ge => 3,
            BinOp::Add | BinOp::Sub => 4,
            BinOp::Mul | BinOp::Div => 5,
            BinOp::Pow => 6,
        }
    }
    pub fn text(self) -> &'static str {
        match self {
            BinOp::Pow => "^",
            BinOp::Mul => "*",
            BinOp::Div => "/",
            BinOp::Add => "+",
            BinOp::Sub => "-",
            BinOp::Eq => "=",
            BinOp::Ne => "<>",
            BinOp::Lt => "<",
            BinOp::Le => "<=",
            BinOp::Gt => ">",
            BinOp::Ge => ">=",
            BinOp::And => "AND",
            BinOp::Or => "OR",
        }
    }
    pub fn is_cmp(self) -> bool {
        self.prec() == 3
    }
    pub fn is_arith(self) -> bool {
        self.prec() >= 4
    }
    pub fn is_logic(self) -> bool {
        self.prec() <= 2
    }
}

impl UnOp {
    pub fn text(self) -> &'static str {
        match self {
            UnOp::Plus => "+",
            UnOp::Neg => "-",
            UnOp::Not => "NOT",
        }
    }
}

#[derive(Debug, Clone, PartialEq, Serialize, Deserialize)]
pub enum Expr {
    /// Non-negative finite literal.
    Num(f64),
    Str(String),
    Var(String),
    Cell(String, Vec<Expr>),
    Un(UnOp, Box<Expr>),
    Bin(BinOp, Box<Expr>, Box<Expr>),
    Paren(Box<Expr>),
    Abs(Box<Expr>),
    Int(Box<Expr>),
    Rnd(Box<Expr>),
    Call(String, Vec<Expr>),
}

impl Expr {
    pub fn num(n: f64) -> Expr {
        Expr::Num(n)
    }
    pub fn var(n: &str) -> Expr {
        Expr::Var(n.to_string())
    }
    pub fn bin(op: BinOp, l: Expr, r: Expr) -> Expr {
        Expr::Bin(op, Box::new(l), Box::new(r))
    }
    pub fn un(op: UnOp, e: Expr) -> Expr {
        Expr::Un(op, Box::new(e))
    }
    pub fn is_primary(&self) -> bool {
        !matches!(self, Expr::Un(..) | Expr::Bin(..))
    }
    pub fn size(&self) -> usize {
        match self {
            Expr::Num(_) | Expr::Str(_) | Expr::Var(_) => 1,
            Expr::Cell(_, v) | Expr::Call(_, v) => 1 + v.iter().map(|e| e.size()).sum::<usize>(),
            Expr::Un(_, e) | Expr::Paren(e) | Expr::Abs(e) | Expr::Int(e) | Expr::Rnd(e) => 1 + e.size(),
            Expr::Bin(_, l, r) => 1 + l.size() + r.size(),
        }
    }
    pub fn depth(&self) -> usize {
        match self {
            Expr::Num(_) | Expr::Str(_) | Expr::Var(_) => 1,
            Expr::Cell(_, v) | Expr::Call(_, v) => 1 + v.iter().map(|e| e.depth()).max().unwrap_or(0),
            Expr::Un(_, e) | Expr::Paren(e) | Expr::Abs(e) | Expr::Int(e) | Expr::Rnd(e) => 1 + e.depth(),
            Expr::Bin(_, l, r) => 1 + l.depth().max(r.depth()),
        }
    }
    /// Visits every sub-expression (pre-order).
    pub fn walk<'a>(&'a self, f: &mut dyn FnMut(&'a Expr)) {
        f(self);
        match self {
            Expr::Num(_) | Expr::Str(_) | Expr::Var(_) => {}
            Expr::Cell(_, v) | Expr::Call(_, v) => v.iter().for_each(|e| e.walk(f)),
            Expr::Un(_, e) | Expr::Paren(e) | Expr::Abs(e) | Expr::Int(e) | Expr::Rnd(e) => e.walk(f),
            Expr::Bin(_, l, r) => {
                l.walk(f);
                r.walk(f);
            }
        }
    }
}

#[derive(Debug, Clone, PartialEq, Serialize, Deserialize)]
pub enum LValue {
    Var(String),
    Cell(String, Vec<Expr>),
}

impl LValue {
    pub fn name(&self) -> &str {
        match self {
            LValue::Var(n) | LValue::Cell(n, _) => n,
        }
    }
}

#[derive(Debug, Clone, PartialEq, Serialize, Deserialize)]
pub enum PrintItem {
    Expr(Expr),
    Semi,
    Comma,
}

#[derive(Debug, Clone, PartialEq, Serialize, Deserialize)]
pub enum DataItem {
    /// Rendered with Rust's `{}`; may be negative.
    Num(f64),
    Quoted(String),
    /// Unquoted word (must not parse as a number, contain `,` `:` `"` or
    /// leading/trailing blanks).
    Bare(String),
}

#[derive(Debug, Clone, PartialEq, Serialize, Deserialize)]
pub enum Branch {
    Stmt(Box<Stmt>),
    Line(u64),
}

#[derive(Debug, Clone, PartialEq, Serialize, Deserialize)]
pub enum Stmt {
    Let { target: LValue, value: Expr, with_let: bool },
    Print(Vec<PrintItem>),
    If { cond: Expr, then: Branch, els: Option<Branch> },
    Goto(u64),
    Gosub(u64),
    Return,
    For { var: String, from: Expr, to: Expr, step: Option<Expr> },
    Next(String),
    Read(Vec<LValue>),
    Data(Vec<DataItem>),
    Restore,
    Dim(String, Vec<Expr>),
    Def { name: String, params: Vec<String>, body: Expr },
    End,
    Rem(String),
    /// An empty statement (renders as nothing between colons).
    Empty,
    Input(LValue),
    Stop,
}

impl Stmt {
    pub fn kind(&self) -> &'static str {
        match self {
            Stmt::Let { .. } => "LET",
            Stmt::Print(_) => "PRINT",
            Stmt::If { .. } => "IF",
            Stmt::Goto(_) => "GOTO",
            Stmt::Gosub(_) => "GOSUB",
            Stmt::Return => "RETURN",
            Stmt::For { .. } => "FOR",
            Stmt::Next(_) => "NEXT",
            Stmt::Read(_) => "READ",
            Stmt::Data(_) => "DATA",
            Stmt::Restore => "RESTORE",
            Stmt::Dim(..) => "DIM",
            Stmt::Def { .. } => "DEF",
            Stmt::End => "END",
            Stmt::Rem(_) => "REM",
            Stmt::Empty => "EMPTY",
            Stmt::Input(_) => "INPUT",
            Stmt::Stop => "STOP",
        }
    }
    /// Visits this statement and the statements nested in its branches.
    pub fn walk<'a>(&'a self, f: &mut dyn FnMut(&'a Stmt)) {
        f(self);
        if let Stmt::If { then, els, .. } = self {
            if let Branch::Stmt(s) = then {
                s.walk(f);
            }
            if let Some(Branch::Stmt(s)) = els {
                s.walk(f);
            }
        }
    }
    /// Visits the expressions directly contained in this statement (not in nested statements).
    pub fn exprs<'a>(&'a self, f: &mut dyn FnMut(&'a Expr)) {
        fn lv<'a>(l: &'a LValue, f: &mut dyn FnMut(&'a Expr)) {
            if let LValue::Cell(_, v) = l {
                v.iter().for_each(|e| f(e));
            }
        }
        match self {
            Stmt::Let { target, value, .. } => {
                lv(target, f);
                f(value);
            }
            Stmt::Print(items) => items.iter().for_each(|i| {
                if let PrintItem::Expr(e) = i {
                    f(e)
                }
            }),
            Stmt::If { cond, .. } => f(cond),
            Stmt::For { from, to, step, .. } => {
                f(from);
                f(to);
                if let Some(s) = step {
                    f(s)
                }
            }
            Stmt::Read(ls) => ls.iter().for_each(|l| lv(l, f)),
            Stmt::Dim(_, v) => v.iter().for_each(|e| f(e)),
            Stmt::Def { body, .. } => f(body),
            Stmt::Input(l) => lv(l, f),
            _ => {}
        }
    }
}

#[derive(Debug, Clone, PartialEq, Serialize, Deserialize)]
pub struct Line {
    pub number: u64,
    pub stmts: Vec<Stmt>,
}

#[derive(Debug, Clone, PartialEq, Serialize, Deserialize, Default)]
pub struct Program {
    /// Strictly ascending line numbers.
    pub lines: Vec<Line>,
}

impl Program {
    pub fn walk_stmts<'a>(&'a self, f: &mut dyn FnMut(&'a Line, &'a Stmt)) {
        for l in &self.lines {
            for s in &l.stmts {
                s.walk(&mut |st| f(l, st));
            }
        }
    }
    pub fn has_kind(&self, k: &str) -> bool {
        let mut found = false;
        self.walk_stmts(&mut |_, s| {
            if s.kind() == k {
                found = true
            }
        });
        found
    }
    pub fn line_index(&self, n: u64) -> Option<usize> {
        self.lines.binary_search_by_key(&n, |l| l.number).ok()
    }
}

// ------------------------------------------------------------------ rendering

/// Rendering style. `salt` drives the pseudo-random choices (blanks, case);
/// it is part of the generated case, so rendering is a pure function of it.
#[derive(Debug, Clone, Copy, PartialEq, Serialize, Deserialize)]
pub struct Style {
    /// 0 = canonical single blanks, 1 = no blanks at all, 2 = random blanks/tabs
    pub spacing: u8,
    /// 0 = upper, 1 = lower, 2 = random per letter
    pub case: u8,
    /// use `?` for PRINT when the salt says so
    pub question_mark: bool,
    /// wrap random sub-expressions in redundant parentheses
    pub redundant_parens: u8, // 0 none, 1 random, 2 everywhere
    pub salt: u64,
}

impl Style {
    pub const PLAIN: Style = Style { spacing: 0, case: 0, question_mark: false, redundant_parens: 0, salt: 0 };
}

pub struct Renderer {
    style: Style,
    ctr: u64,
    out: String,
}

fn mix(mut z: u64) -> u64 {
    z = z.wrapping_add(0x9E3779B97F4A7C15);
    z = (z ^ (z >> 30)).wrapping_mul(0xBF58476D1CE4E5B9);
    z = (z ^ (z >> 27)).wrapping_mul(0x94D049BB133111EB);
    z ^ (z >> 31)
}

impl Renderer {
    pub fn new(style: Style) -> Renderer {
        Renderer { style, ctr: 0, out: String::new() }
    }
    fn rnd(&mut self) -> u64 {
        self.ctr += 1;
        mix(self.style.salt ^ self.ctr.wrapping_mul(0xD1B54A32D192ED03))
    }
    /// A gap between two tokens.
    fn gap(&mut self) {
        match self.style.spacing {
            0 => self.out.push(' '),
            1 => {}
            _ => match self.rnd() % 6 {
                0 => {}
                1 | 2 => self.out.push(' '),
                3 => self.out.push_str("  "),
                4 => self.out.push('\t'),
                _ => self.out.push_str(" \t "),
            },
        }
    }
    /// A gap where canonical style puts nothing (e.g. after `(`).
    fn tight(&mut self) {
        if self.style.spacing >= 2 && self.rnd() % 4 == 0 {
            self.out.push(' ');
        }
    }
    /// Keyword / identifier text: case-varied, and in spacing mode 2 sometimes
    /// split by blanks (blanks inside keywords and identifiers are ignored).
    fn word(&mut self, w: &str) {
        for (i, ch) in w.chars().enumerate() {
            if i > 0 && self.style.spacing >= 2 && self.rnd() % 9 == 0 {
                self.out.push(' ');
            }
            let c = match self.style.case {
                0 => ch.to_ascii_uppercase(),
                1 => ch.to_ascii_lowercase(),
                _ => {
                    if self.rnd() % 2 == 0 {
                        ch.to_ascii_uppercase()
                    } else {
                        ch.to_ascii_lowercase()
                    }
                }
            };
            self.out.push(c);
        }
    }
    fn raw(&mut self, s: &str) {
        self.out.push_str(s);
    }
    fn num(&mut self, n: f64) {
        let s = format!("{}", n);
        self.out.push_str(&s);
    }
    fn str_lit(&mut self, s: &str) {
        self.out.push('"');
        self.out.push_str(s);
        self.out.push('"');
    }

    pub fn expr(&mut self, e: &Expr) {
        let wrap = match self.style.redundant_parens {
            0 => false,
            1 => self.rnd() % 4 == 0,
            _ => true,
        };
        if wrap {
            self.raw("(");
            self.tight();
            self.expr_inner(e);
            self.tight();
            self.raw(")");
        } else {
            self.expr_inner(e);
        }
    }

    fn args(&mut self, v: &[Expr]) {
        self.raw("(");
        for (i, a) in v.iter().enumerate() {
            if i > 0 {
                self.raw(",");
                self.gap();
            }
            self.tight();
            self.expr(a);
        }
        self.tight();
        self.raw(")");
    }

    fn expr_inner(&mut self, e: &Expr) {
        match e {
            Expr::Num(n) => self.num(*n),
            Expr::Str(s) => self.str_lit(s),
            Expr::Var(n) => self.word(n),
            Expr::Cell(n, idx) => {
                self.word(n);
                self.tight();
                self.args(idx);
            }
            Expr::Call(n, a) => {
                self.word(n);
                self.tight();
                self.args(a);
            }
            Expr::Abs(a) => {
                self.word("ABS");
                self.tight();
                self.args(std::slice::from_ref(a));
            }
            Expr::Int(a) => {
                self.word("INT");
                self.tight();
                self.args(std::slice::from_ref(a));
            }
            Expr::Rnd(a) => {
                self.word("RND");
                self.tight();
                self.args(std::slice::from_ref(a));
            }
            Expr::Paren(a) => {
                self.raw("(");
                self.tight();
                self.expr(a);
                self.tight();
                self.raw(")");
            }
            Expr::Un(op, a) => {
                self.word(op.text());
                if *op == UnOp::Not {
                    self.gap();
                } else {
                    self.tight();
                }
                if a.is_primary() {
                    self.expr_inner(a);
                } else {
                    self.raw("(");
                    self.expr(a);
                    self.raw(")");
                }
            }
            Expr::Bin(op, l, r) => {
                let lp = matches!(&**l, Expr::Bin(lo, ..) if lo.prec() < op.prec());
                let rp = matches!(&**r, Expr::Bin(ro, ..) if ro.prec() <= op.prec());
                if lp {
                    self.raw("(");
                    self.expr(l);
                    self.raw(")");
                } else {
                    self.expr(l);
                }
                self.gap();
                if op.is_logic() {
                    self.word(op.text());
                } else if op.text().len() == 2 {
                    let t = op.text();
                    self.raw(&t[0..1]);
                    self.tight();
                    self.raw(&t[1..2]);
                } else {
                    self.raw(op.text());
                }
                self.gap();
                if rp {
                    self.raw("(");
                    self.expr(r);
                    self.raw(")");
                } else {
                    self.expr(r);
                }
            }
        }
    }

    fn lvalue(&mut self, l: &LValue) {
        match l {
            LValue::Var(n) => self.word(n),
            LValue::Cell(n, idx) => {
                self.word(n);
                self.tight();
                self.args(idx);
            }
        }
    }

    fn line_number(&mut self, n: u64) {
        self.out.push_str(&n.to_string());
    }

    fn branch(&mut self, b: &Branch) {
        match b {
            Branch::Stmt(s) => self.stmt(s),
            Branch::Line(n) => self.line_number(*n),
        }
    }

    pub fn stmt(&mut self, s: &Stmt) {
        match s {
            Stmt::Let { target, value, with_let } => {
                if *with_let {
                    self.word("LET");
                    self.gap();
                }
                self.lvalue(target);
                self.gap();
                self.raw("=");
                self.gap();
                self.expr(value);
            }
            Stmt::Print(items) => {
                if self.style.question_mark && self.rnd() % 2 == 0 {
                    self.raw("?");
                } else {
                    self.word("PRINT");
                }
                let mut prev_was_expr = false;
                for it in items {
                    match it {
                        PrintItem::Expr(e) => {
                            self.gap();
                            if prev_was_expr {
                                // juxtaposed items: a redundant parenthesis here would be read
                                // as a subscript of the preceding variable
                                self.expr_inner(e);
                            } else {
                                self.expr(e);
                            }
                        }
                        PrintItem::Semi => {
                            self.tight();
                            self.raw(";");
                        }
                        PrintItem::Comma => {
                            self.tight();
                            self.raw(",");
                        }
                    }
                    prev_was_expr = matches!(it, PrintItem::Expr(_));
                }
            }
            Stmt::If { cond, then, els } => {
                self.word("IF");
                self.gap();
                self.expr(cond);
                self.gap();
                self.word("THEN");
                self.gap();
                self.branch(then);
                if let Some(e) = els {
                    self.gap();
                    self.word("ELSE");
                    self.gap();
                    self.branch(e);
                }
            }
            Stmt::Goto(n) => {
                if self.style.spacing >= 2 && self.rnd() % 3 == 0 {
                    self.word("GO");
                    self.raw(" ");
                    self.word("TO");
                } else {
                    self.word("GOTO");
                }
                self.gap();
                self.line_number(*n);
            }
            Stmt::Gosub(n) => {
                self.word("GOSUB");
                self.gap();
                self.line_number(*n);
            }
            Stmt::Return => self.word("RETURN"),
            Stmt::For { var, from, to, step } => {
                self.word("FOR");
                self.gap();
                self.word(var);
                self.gap();
                self.raw("=");
                self.gap();
                self.expr(from);
                self.gap();
                self.word("TO");
                self.gap();
                self.expr(to);
                if let Some(st) = step {
                    self.gap();
                    self.word("STEP");
                    self.gap();
                    self.expr(st);
                }
            }
            Stmt::Next(v) => {
                self.word("NEXT");
                self.gap();
                self.word(v);
            }
            Stmt::Read(ls) => {
                self.word("READ");
                self.gap();
                for (i, l) in ls.iter().enumerate() {
                    if i > 0 {
                        self.raw(",");
                        self.gap();
                    }
                    self.lvalue(l);
                }
            }
            Stmt::Data(items) => {
                self.word("DATA");
                for (i, it) in items.iter().enumerate() {
                    if i > 0 {
                        self.raw(",");
                    }
                    self.gap();
                    match it {
                        DataItem::Num(n) => self.num(*n),
                        DataItem::Quoted(s) => self.str_lit(s),
                        DataItem::Bare(s) => self.raw(s),
                    }
                    // Blanks between an item and the following comma / colon
                    // are insignificant, but between a closing quote and the
                    // separator they expose a known parser defect (F6); the
                    // model-based generators keep quoted items tight.
                    if !matches!(it, DataItem::Quoted(_)) {
                        self.tight();
                    }
                }
            }
            Stmt::Restore => self.word("RESTORE"),
            Stmt::Dim(n, idx) => {
                self.word("DIM");
                self.gap();
                self.word(n);
                self.tight();
                self.args(idx);
            }
            Stmt::Def { name, params, body } => {
                self.word("DEF");
                self.gap();
                self.word(name);
                self.tight();
                self.raw("(");
                for (i, p) in params.iter().enumerate() {
                    if i > 0 {
                        self.raw(",");
                        self.gap();
                    }
                    self.word(p);
                }
                self.raw(")");
                self.gap();
                self.raw("=");
                self.gap();
                self.expr(body);
            }
            Stmt::End => self.word("END"),
            Stmt::Rem(t) => {
                self.word("REM");
                self.raw(t);
            }
            Stmt::Empty => {}
            Stmt::Input(l) => {
                self.word("INPUT");
                self.gap();
                self.lvalue(l);
            }
            Stmt::Stop => self.word("STOP"),
        }
    }

    pub fn stmts(&mut self, v: &[Stmt]) {
        for (i, s) in v.iter().enumerate() {
            if i > 0 {
                self.tight();
                self.raw(":");
                self.gap();
            }
            self.stmt(s);
        }
    }

    pub fn finish(self) -> String {
        self.out
    }
}

pub fn render_expr(e: &Expr, style: Style) -> String {
    let mut r = Renderer::new(style);
    r.expr(e);
    r.finish()
}

pub fn render_stmts(v: &[Stmt], style: Style) -> String {
    let mut r = Renderer::new(style);
    r.stmts(v);
    r.finish()
}

pub fn render_line(l: &Line, style: Style) -> String {
    let mut r = Renderer::new(Style { salt: style.salt ^ mix(l.number), ..style });
    r.line_number(l.number);
    r.gap();
    r.stmts(&l.stmts);
    r.finish()
}

pub fn render_program(p: &Program, style: Style) -> Vec<String> {
    p.lines.iter().map(|l| render_line(l, style)).collect()
}
