//! C11 — editing the program invalidates every runtime reference into it.

use crate::ast::*;
use crate::core::*;
use crate::gen::{self, GenCfg, FOR_VARS, NUM_VARS, STR_VARS};
use crate::run::*;
use crate::sess::*;
use proptest::prelude::*;
use serde::{Deserialize, Serialize};

pub const BUDGET: u64 = 500;

#[derive(Serialize, Deserialize, Debug, Clone, PartialEq)]
pub enum Edit {
    /// add a new line after the `at`-th line (number chosen in the gap or after the end)
    Add { at: u16, content: u8 },
    /// replace the `at`-th line by different text
    Replace { at: u16, content: u8 },
    Delete { at: u16 },
    /// an edit that fails to tokenize (for an existing or a new number)
    Rejected { at: u16, existing: bool, bad: u8 },
}

#[derive(Serialize, Deserialize, Debug, Clone, PartialEq)]
pub enum Probe {
    Cont,
    Return,
    Next(u8),
    Read,
    CallFn(u8),
    Vars,
    Goto(u16),
}

#[derive(Serialize, Deserialize, Debug, Clone)]
pub struct EditCase {
    pub prog: Program,
    pub style: Style,
    pub seed: u64,
    pub replies: Vec<String>,
    /// number of program-advancing calls before the suspension
    pub after_calls: u16,
    pub edit: Edit,
    pub probe: Probe,
}

const NEW_CONTENT: &[(&str, Option<&str>)] = &[
    ("REM edited", None),
    ("DATA \"new1\", 5", Some("new1")),
    ("PRINT \"edited\"", None),
    ("DATA 77", Some("77")),
    ("Q = Q", None),
];
const BAD: &[&str] = &["PRINT \"unterminated", "X = 1 % 2", "PRINT 1.2.3", "PRINT é"];

fn case() -> impl Strategy<Value = EditCase> {
    let cfg = GenCfg { max_blocks: 10, ..GenCfg::C03.with_input() };
    let edit = prop_oneof![
        3 => (any::<u16>(), 0u8..(NEW_CONTENT.len() as u8)).prop_map(|(at, content)| Edit::Add { at, content }),
        3 => (any::<u16>(), 0u8..(NEW_CONTENT.len() as u8)).prop_map(|(at, content)| Edit::Replace { at, content }),
        3 => any::<u16>().prop_map(|at| Edit::Delete { at }),
        4 => (any::<u16>(), any::<bool>(), 0u8..(BAD.len() as u8)).prop_map(|(at, existing, bad)| Edit::Rejected { at, existing, bad }),
    ];
    let probe = prop_oneof![
        4 => Just(Probe::Cont),
        3 => Just(Probe::Return),
        3 => any::<u8>().prop_map(Probe::Next),
        3 => Just(Probe::Read),
        2 => (0u8..2).prop_map(Probe::CallFn),
        2 => Just(Probe::Vars),
        1 => any::<u16>().prop_map(Probe::Goto),
    ];
    // a third of the programs define no function at all (and so never fill the function table)
    let prog = prop_oneof![7 => gen::program(cfg), 3 => gen::program_without_defs(cfg)];
    (prog, gen::style(), any::<u64>(), super::c07::replies(), prop_oneof![1u16..40, 1u16..400, Just(2000u16)], edit, probe)
        .prop_map(|(prog, style, seed, replies, after_calls, edit, probe)| EditCase { prog, style, seed, replies, after_calls, edit, probe })
}

/// Host that lets the program make `n` advancing calls and then stops driving.
struct StopAfter {
    n: u64,
}
impl Host for StopAfter {
    fn boundary(&mut self, _s: &mut Sess, turn: u64, _st: St, _events: usize) -> Result<bool, Crash> {
        if turn >= self.n {
            // abuse the Crash channel as an early exit
            return Err(Crash("\u{1}suspend".into()));
        }
        Ok(false)
    }
}

/// Brings a fresh session to the suspension point. Returns the session (idle).
fn suspend(lines: &[String], c: &EditCase) -> Result<Sess, Crash> {
    let mut sess = Sess::new();
    sess.randomize(c.seed);
    if let Err(e) = sess.enter_program(lines)? {
        return Err(Crash(format!("valid-line-rejected {:?}", e)));
    }
    let mut host = StopAfter { n: c.after_calls as u64 };
    match drive(&mut sess, "RUN", &c.replies, BUDGET, &mut host) {
        Ok(_) => {}
        Err(Crash(p)) if p == "\u{1}suspend" => {}
        Err(e) => return Err(e),
    }
    if sess.state()? != St::Idle {
        sess.brk()?;
    }
    Ok(sess)
}

fn var_probes(sess: &mut Sess) -> Result<Vec<String>, Crash> {
    let snap = sess.interp.verif_snapshot();
    let mut v = vec![];
    for n in NUM_VARS.iter().chain(STR_VARS.iter()) {
        let mut o = vec![];
        let mut b = 10u64;
        sess.line_and_run(&format!("PRINT {}", n), &mut b, &mut o)?;
        v.push(format!("{}={:?}", n, printed(&o)));
    }
    for (name, dims, _, _) in &snap.arrays {
        if snap.functions.contains(name) || crate::gen::FUNCS.iter().any(|(f, _)| f == name) {
            continue;
        }
        for k in [0usize, 2, 10] {
            let subs: Vec<String> = dims.iter().map(|d| k.min(d - 1).to_string()).collect();
            let mut o = vec![];
            let mut b = 10u64;
            sess.line_and_run(&format!("PRINT {}({})", name, subs.join(",")), &mut b, &mut o)?;
            v.push(format!("{}({})={:?}", name, subs.join(","), printed(&o)));
        }
    }
    Ok(v)
}

#[derive(Debug, PartialEq)]
struct ProbeResult {
    err: Option<ErrKind>,
    text: String,
    continuation: Option<(Vec<TEvent>, End)>,
}

fn run_probe(sess: &mut Sess, line: &str, replies: &[String]) -> Result<ProbeResult, Crash> {
    // the probe may resume the program: drive it like a run
    let t = drive(sess, line, replies, BUDGET, &mut NoHost)?;
    let err = if let End::Error(k, _) = &t.end { Some(*k) } else { None };
    Ok(ProbeResult { err, text: t.printed(), continuation: Some((t.essential(), t.end)) })
}

fn first_data_item(p: &Program) -> Option<String> {
    for l in &p.lines {
        for s in &l.stmts {
            let mut found = None;
            s.walk(&mut |st| {
                if found.is_none() {
                    if let Stmt::Data(items) = st {
                        if let Some(it) = items.first() {
                            found = Some(match it {
                                DataItem::Num(n) => format!("{}", n),
                                DataItem::Quoted(s) | DataItem::Bare(s) => s.clone(),
                            });
                        }
                    }
                }
            });
            if found.is_some() {
                return found;
            }
        }
    }
    None
}

fn check(c: &EditCase, rec: &mut CaseRec) -> Verdict {
    if c.prog.lines.is_empty() {
        rec.excluded = 1;
        return Verdict::Pass;
    }
    let lines = render_program(&c.prog, c.style);
    let show = |why: String| format!("{}; program {:?} replies {:?} after_calls {} edit {:?} probe {:?}", why, lines, c.replies, c.after_calls, c.edit, c.probe);
    let mut a = match suspend(&lines, c) {
        Ok(s) => s,
        Err(Crash(p)) => return Verdict::fail(if p.starts_with("valid-line-rejected") { "valid-line-rejected" } else { "panic" }, show(p)),
    };
    let before = a.interp.verif_snapshot();
    // the edit
    let n = c.prog.lines.len();
    let numbers: Vec<u64> = c.prog.lines.iter().map(|l| l.number).collect();
    let mut edited = c.prog.clone();
    let (edit_line, successful): (String, bool) = match &c.edit {
        Edit::Add { at, content } => {
            let i = idx(*at, n);
            let candidate = numbers[i] + 1;
            let num = if numbers.contains(&candidate) { numbers[n - 1] + 1 } else { candidate };
            let (text, data) = NEW_CONTENT[*content as usize];
            let stmts = match data {
                Some(d) => vec![Stmt::Data(vec![DataItem::Bare(d.to_string())])],
                None => vec![Stmt::Rem(String::new())],
            };
            let pos = edited.lines.iter().position(|l| l.number > num).unwrap_or(edited.lines.len());
            edited.lines.insert(pos, Line { number: num, stmts });
            (format!("{} {}", num, text), true)
        }
        Edit::Replace { at, content } => {
            let i = idx(*at, n);
            let (text, data) = NEW_CONTENT[*content as usize];
            edited.lines[i].stmts = match data {
                Some(d) => vec![Stmt::Data(vec![DataItem::Bare(d.to_string())])],
                None => vec![Stmt::Rem(String::new())],
            };
            (format!("{} {}", numbers[i], text), true)
        }
        Edit::Delete { at } => {
            let i = idx(*at, n);
            edited.lines.remove(i);
            (format!("{}", numbers[i]), true)
        }
        Edit::Rejected { at, existing, bad } => {
            let i = idx(*at, n);
            let num = if *existing { numbers[i] } else { numbers[n - 1] + 3 };
            (format!("{} {}", num, BAD[*bad as usize]), false)
        }
    };
    let pre_vars = match var_probes(&mut a) {
        Ok(v) => v,
        Err(Crash(p)) => return Verdict::fail("panic", show(p)),
    };
    // the variable probes are immediate statements: they must not have disturbed what we are about to test
    let r = match a.line(&edit_line) {
        Ok(r) => r,
        Err(Crash(p)) => return Verdict::fail("panic", show(format!("edit {:?}: {}", edit_line, p))),
    };
    if successful != r.err.is_none() {
        return Verdict::fail("edit-outcome", show(format!("edit {:?} gave {:?}", edit_line, r.err)));
    }
    let probe_line = match &c.probe {
        Probe::Cont => "CONT".to_string(),
        Probe::Return => "RETURN".to_string(),
        Probe::Next(k) => {
            let v = if before.loops.is_empty() { FOR_VARS[*k as usize % FOR_VARS.len()].to_string() } else { before.loops[*k as usize % before.loops.len()].clone() };
            format!("NEXT {}", v)
        }
        Probe::Read => "READ W1$ : PRINT \"[\"; W1$; \"]\"".to_string(),
        Probe::CallFn(k) => if *k == 0 { "PRINT QQ(1)".to_string() } else { "PRINT KK(1,1)".to_string() },
        Probe::Vars => String::new(),
        Probe::Goto(k) => {
            let nums: Vec<u64> = edited.lines.iter().map(|l| l.number).collect();
            if nums.is_empty() {
                "GOTO 0".to_string()
            } else {
                format!("GOTO {}", nums[idx(*k, nums.len())])
            }
        }
    };
    let live = match &c.probe {
        Probe::Cont => before.has_breakpoint,
        Probe::Return => !before.frames.is_empty(),
        Probe::Next(_) => !before.loops.is_empty(),
        Probe::Read => before.has_data_cursor,
        Probe::CallFn(k) => before.functions.iter().any(|f| f == if *k == 0 { "QQ" } else { "KK" }),
        Probe::Vars => !before.variables.is_empty() || !before.arrays.is_empty(),
        Probe::Goto(_) => true,
    };
    if successful {
        // variables and arrays are kept
        let post_vars = match var_probes(&mut a) {
            Ok(v) => v,
            Err(Crash(p)) => return Verdict::fail("panic", show(p)),
        };
        if post_vars != pre_vars {
            let d = pre_vars.iter().zip(&post_vars).find(|(x, y)| x != y).map(|(x, y)| format!("{} became {}", x, y)).unwrap_or_default();
            return Verdict::fail("edit-changed-variables", show(d));
        }
        if c.probe != Probe::Vars {
            let res = match run_probe(&mut a, &probe_line, &c.replies) {
                Ok(r) => r,
                Err(Crash(p)) => return Verdict::fail("panic", show(format!("probe {:?}: {}", probe_line, p))),
            };
            let fail = |key: &str, want: &str| Verdict::fail(key, show(format!("after the edit {:?}, {:?} gave {:?} / {:?}, expected {}", edit_line, probe_line, res.err, res.text, want)));
            match &c.probe {
                Probe::Cont => {
                    if res.err != Some(ErrKind::CannotContinue) {
                        return fail("cont-after-edit", "CAN'T CONTINUE");
                    }
                }
                Probe::Return => {
                    if res.err != Some(ErrKind::ReturnWithoutGosub) {
                        return fail("return-after-edit", "RETURN WITHOUT GOSUB");
                    }
                }
                Probe::Next(_) => {
                    // NEXT of a string-named variable fails its type check before any loop lookup
                    let string_named = probe_line.ends_with('$');
                    if res.err != Some(ErrKind::NextWithoutFor) && !(string_named && res.err == Some(ErrKind::TypeMismatch)) {
                        return fail("next-after-edit", "NEXT WITHOUT FOR");
                    }
                }
                Probe::Read => match first_data_item(&edited) {
                    Some(item) => {
                        if res.err.is_some() || res.text != format!("[{}]\n", item) {
                            return fail("read-after-edit", &format!("[{}] (first DATA item of the edited program)", item));
                        }
                    }
                    None => {
                        if res.err != Some(ErrKind::OutOfData) {
                            return fail("read-after-edit", "OUT OF DATA");
                        }
                    }
                },
                Probe::CallFn(k) => {
                    let name = if *k == 0 { "QQ" } else { "KK" };
                    let array_exists = before.arrays.iter().any(|(n, ..)| n == name);
                    if !array_exists && (res.err.is_some() || res.text != "0\n") {
                        return fail("function-survives-edit", "0 (the function is gone; the name reads as a fresh array)");
                    }
                }
                _ => {}
            }
        }
    } else {
        // a rejected edit invalidates nothing: same probe in a twin session without the edit attempt
        let mut b = match suspend(&lines, c) {
            Ok(s) => s,
            Err(Crash(p)) => return Verdict::fail("panic", show(p)),
        };
        if let Err(Crash(p)) = var_probes(&mut b) {
            return Verdict::fail("panic", show(p));
        }
        if c.probe == Probe::Vars {
            let (x, y) = (var_probes(&mut a), var_probes(&mut b));
            match (x, y) {
                (Ok(x), Ok(y)) if x == y => {}
                other => return Verdict::fail("rejected-edit-changed-variables", show(format!("{:?}", other.0.map_err(|c| c.0)))),
            }
        } else {
            let ra = run_probe(&mut a, &probe_line, &c.replies);
            let rb = run_probe(&mut b, &probe_line, &c.replies);
            match (ra, rb) {
                (Ok(x), Ok(y)) => {
                    if x != y {
                        return Verdict::fail(
                            "rejected-edit-invalidates",
                            show(format!("after the rejected edit {:?}, {:?} gave {:?}/{:?}/{:?}; without the attempt {:?}/{:?}/{:?}", edit_line, probe_line, x.err, x.text, x.continuation.as_ref().map(|c| &c.1), y.err, y.text, y.continuation.as_ref().map(|c| &c.1))),
                        );
                    }
                }
                (Err(Crash(p)), _) | (_, Err(Crash(p))) => return Verdict::fail("panic", show(p)),
            }
        }
    }
    if live {
        rec.class("probed-resource-was-live");
    }
    if successful {
        rec.class("successful-edit");
    } else {
        rec.class("rejected-edit");
    }
    if !before.loops.is_empty() && !before.frames.is_empty() {
        rec.class("suspended-inside-loop-and-subroutine");
    }
    let sus = (before.has_breakpoint, !before.loops.is_empty(), !before.frames.is_empty(), before.has_data_cursor, !before.functions.is_empty());
    rec.nontrivial_if(live, hash_of(&(format!("{:?}", sus), format!("{:?}", std::mem::discriminant(&c.edit)), format!("{:?}", std::mem::discriminant(&c.probe)), lines.join("\n"))));
    Verdict::Pass
}

pub fn property() -> Property {
    let families: Vec<Box<dyn Family>> = vec![prop_family("suspend-edit-probe", 100_000, 1_500_000, |_| case(), check)];
    Property {
        id: "C11",
        rule: "A grammar-generated program (INPUT/STOP allowed) is run for a generated number of calls and suspended (host break, STOP, or left idle after finishing/failing), so that suspension happens inside nested loops, subroutines, after partial READs and after DEFs (class histogram). Then one edit (add a new line, replace an existing line by different text, delete an existing line, or a rejected edit with an unterminated string / illegal character / bad numeral / multi-byte character for an existing or new number) and one probe (CONT, RETURN, NEXT of an open loop variable, READ+PRINT, call of a previously defined function, variable/cell probes, GOTO). Oracle after a successful edit: CAN'T CONTINUE / RETURN WITHOUT GOSUB / NEXT WITHOUT FOR / the first DATA item of the edited program in line order (or OUT OF DATA) / 0 for the vanished function, and every scalar and sample cell prints as before the edit. After a rejected edit the probe's result (error kind, output, whole continuation transcript) must equal that of a twin session suspended identically without the edit attempt. Non-trivial: the probed resource was live before the edit per the snapshot hook; distinct by (suspension class, edit kind, probe kind, program).",
        assumptions: vec!["re-entering identical text and deleting a non-existent line are not generated (whether they count as a change is unspecified)"],
        fuzz: None,
        families,
        prelude: None,
        epilogue: None,
    }
}
