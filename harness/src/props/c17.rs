//! C17 — tracing and warnings never change what a program does.

use crate::ast::*;
use crate::core::*;
use crate::gen::{self, GenCfg, NUM_VARS, STR_VARS};
use crate::model::{Event, Model, Status};
use crate::run::*;
use crate::sess::*;
use proptest::prelude::*;
use serde::{Deserialize, Serialize};

pub const BUDGET: u64 = 800;

#[derive(Serialize, Deserialize, Debug, Clone)]
pub struct TwCase {
    #[serde(default)]
    pub raw_lines: Option<Vec<String>>,
    pub prog: Program,
    pub style: Style,
    pub seed: u64,
    pub replies: Vec<String>,
    /// toggle tracing with the TRACE / NOTRACE command after this many calls
    pub toggle_after: u16,
}

fn case() -> impl Strategy<Value = TwCase> {
    let cfg = GenCfg { max_blocks: 10, allow_stop: false, ..GenCfg::C03.with_input() };
    (gen::program(cfg), gen::style(), any::<u64>(), super::c08::replies(), 1u16..60).prop_map(|(prog, style, seed, replies, toggle_after)| TwCase { raw_lines: None, prog, style, seed, replies, toggle_after })
}

fn run_cfg(lines: &[String], c: &TwCase, warnings: bool, tracing: bool, via_command: bool) -> Result<Result<(Sess, Transcript), ErrInfo>, Crash> {
    let mut sess = Sess::new();
    sess.randomize(c.seed);
    if via_command {
        sess.set_options(warnings, false);
        if tracing {
            let r = sess.line("TRACE")?;
            if let Some(e) = r.err {
                return Ok(Err(e));
            }
            sess.tracing = true;
        }
    } else {
        sess.set_options(warnings, tracing);
    }
    if let Err(e) = sess.enter_program(lines)? {
        return Ok(Err(e));
    }
    let t = drive(&mut sess, "RUN", &c.replies, BUDGET, &mut NoHost)?;
    Ok(Ok((sess, t)))
}

fn scalar_probes(sess: &mut Sess) -> Result<Vec<String>, Crash> {
    if sess.state()? != St::Idle {
        sess.brk()?;
    }
    // probes must not emit warnings into the comparison: switch them off first
    sess.interp.enable_warnings = false;
    sess.interp.enable_tracing = false;
    let mut v = vec![];
    for n in NUM_VARS.iter().chain(STR_VARS.iter()) {
        let mut o = vec![];
        let mut b = 10u64;
        sess.line_and_run(&format!("PRINT {}", n), &mut b, &mut o)?;
        v.push(format!("{}={:?}", n, printed(&o)));
    }
    v.push(format!("{:?}", sess.interp.verif_snapshot()));
    Ok(v)
}

fn collapse(v: impl Iterator<Item = u64>) -> Vec<u64> {
    let mut out: Vec<u64> = vec![];
    for x in v {
        if out.last() != Some(&x) {
            out.push(x);
        }
    }
    out
}

struct Toggler {
    at: u64,
    cmd: &'static str,
    done: bool,
    /// number of program events seen before the toggle (filled in by the driver hook below)
    toggled_at_event: Option<usize>,
    calls_at_toggle: u64,
}
impl Host for Toggler {
    fn boundary(&mut self, sess: &mut Sess, turn: u64, _st: St, events_so_far: usize) -> Result<bool, Crash> {
        if self.done || turn < self.at {
            return Ok(false);
        }
        self.done = true;
        self.calls_at_toggle = turn;
        self.toggled_at_event = Some(events_so_far);
        sess.brk()?;
        let r = sess.line(self.cmd)?;
        if r.err.is_some() || !r.out.is_empty() {
            return Err(Crash(format!("{} at a breakpoint gave {:?} {:?}", self.cmd, r.err, r.out)));
        }
        Ok(true)
    }
}

fn repo_case() -> impl Strategy<Value = TwCase> {
    (0usize..2, any::<u64>(), crate::textgen::numeric_replies(), 1u16..200).prop_map(|(w, seed, replies, toggle_after)| TwCase {
        raw_lines: Some(crate::textgen::repo_program(w)),
        prog: Program::default(),
        style: Style::PLAIN,
        seed,
        replies,
        toggle_after,
    })
}

fn check(c: &TwCase, rec: &mut CaseRec) -> Verdict {
    let lines = c.raw_lines.clone().unwrap_or_else(|| render_program(&c.prog, c.style));
    let show = |why: String| format!("{}; program {:?} replies {:?}", why, lines, c.replies);
    let mut runs: Vec<(bool, bool, Sess, Transcript)> = vec![];
    for (w, t) in [(false, false), (true, false), (false, true), (true, true)] {
        match run_cfg(&lines, c, w, t, false) {
            Err(Crash(p)) => return Verdict::fail("panic", show(format!("warnings={} tracing={}: {}", w, t, p))),
            Ok(Err(e)) => return Verdict::fail("valid-line-rejected", show(format!("{:?}", e))),
            Ok(Ok((s, tr))) => runs.push((w, t, s, tr)),
        }
    }
    let base_ev = runs[0].3.essential();
    let base_end = runs[0].3.end.clone();
    // (i) nothing but trace / warning records differs
    for (w, t, _, tr) in &runs {
        if !*w && tr.events.iter().any(|e| matches!(e, TEvent::Warning(..))) {
            return Verdict::fail("warning-while-disabled", show(format!("warnings=false tracing={}", t)));
        }
        if !*t && tr.events.iter().any(|e| matches!(e, TEvent::Trace(_))) {
            return Verdict::fail("trace-while-disabled", show(format!("warnings={} tracing=false", w)));
        }
        if tr.essential() != base_ev || tr.end != base_end {
            let ev = tr.essential();
            let n = ev.len().min(base_ev.len());
            let i = (0..n).find(|i| ev[*i] != base_ev[*i]);
            return Verdict::fail(
                "configuration-changes-behaviour",
                show(format!("warnings={} tracing={}: first difference at {:?}: {:?} vs {:?}; ends {:?} vs {:?}", w, t, i, i.map(|i| &ev[i]).or(ev.get(n)), i.map(|i| &base_ev[i]).or(base_ev.get(n)), tr.end, base_end)),
            );
        }
    }
    // immediate lines are never traced
    {
        let s = &mut runs[3].2;
        if s.state().map(|st| st != St::Idle).unwrap_or(false) {
            let _ = s.brk();
        }
        let mut o = vec![];
        let mut b = 20u64;
        match s.line_and_run("PRINT 1 : PRINT 2", &mut b, &mut o) {
            Ok(_) => {
                if o.iter().any(|x| matches!(x, Out::Trace(_))) {
                    return Verdict::fail("immediate-line-traced", show(format!("{:?}", o)));
                }
            }
            Err(Crash(p)) => return Verdict::fail("panic", show(p)),
        }
    }
    let mut probes = vec![];
    for (_, _, s, _) in runs.iter_mut() {
        match scalar_probes(s) {
            Ok(p) => probes.push(p),
            Err(Crash(p)) => return Verdict::fail("panic", show(p)),
        }
    }
    for p in &probes[1..] {
        if p != &probes[0] {
            let d = p.iter().zip(&probes[0]).find(|(a, b)| a != b).map(|(a, b)| format!("{} vs {}", a, b)).unwrap_or_default();
            return Verdict::fail("configuration-changes-final-state", show(d));
        }
    }
    // (ii) the records themselves, against the reference interpreter
    let full = &runs[3].3;
    let model_applicable = c.raw_lines.is_none();
    let mut m = Model::new(&c.prog, c.seed);
    m.warnings = true;
    m.tracing = true;
    let mut mb = 50 * BUDGET;
    let mut nr = 0usize;
    m.run(&mut mb);
    let mut guard = 0;
    while m.status == Status::AwaitingInput && guard < 2000 {
        guard += 1;
        let text = c.replies.get(nr).cloned().unwrap_or_else(|| DEFAULT_REPLY.to_string());
        nr += 1;
        m.reply(&text);
        m.run(&mut mb);
    }
    // Where exactly OUT OF MEMORY strikes inside a runaway recursion (32 frames or
    // the nesting limit, whichever comes first) is not specified: compare prefixes then.
    let runaway = matches!(full.end, End::Error(ErrKind::StackOverflow, _));
    if runaway {
        rec.class("runaway-recursion(prefix-compare)");
    }
    let finished = full.end != End::Budget && m.status == Status::Done && !runaway;
    let impl_trace = collapse(full.events.iter().filter_map(|e| if let TEvent::Trace(l) = e { Some(*l) } else { None }));
    let model_trace = collapse(m.events.iter().filter_map(|e| if let Event::Trace(l) = e { Some(*l) } else { None }));
    let impl_warn: Vec<(String, Option<u64>)> = full.events.iter().filter_map(|e| if let TEvent::Warning(w, l) = e { Some((w.clone(), *l)) } else { None }).collect();
    let model_warn: Vec<(String, Option<u64>)> = m.events.iter().filter_map(|e| if let Event::Warning(w, l) = e { Some((w.clone(), *l)) } else { None }).collect();
    if !model_applicable {
        rec.class("real-program(metamorphic-part-only)");
    } else if finished {
        if impl_trace != model_trace {
            return Verdict::fail("trace-sequence-differs", show(format!("collapsed trace {:?}, execution passes through {:?}", impl_trace, model_trace)));
        }
        if impl_warn != model_warn {
            let n = impl_warn.len().min(model_warn.len());
            let i = (0..n).find(|i| impl_warn[*i] != model_warn[*i]);
            return Verdict::fail(
                "warnings-differ",
                show(format!("first difference at {:?}: impl {:?} model {:?} (counts {} vs {})", i, i.map(|i| &impl_warn[i]).or(impl_warn.get(n)), i.map(|i| &model_warn[i]).or(model_warn.get(n)), impl_warn.len(), model_warn.len())),
            );
        }
    } else {
        rec.class("budget");
        let n = impl_trace.len().min(model_trace.len()).saturating_sub(1);
        if impl_trace[..n] != model_trace[..n] {
            return Verdict::fail("trace-sequence-differs", show(format!("prefix: {:?} vs {:?}", &impl_trace[..n], &model_trace[..n])));
        }
        let n = impl_warn.len().min(model_warn.len());
        if impl_warn[..n] != model_warn[..n] {
            return Verdict::fail("warnings-differ", show(format!("prefix: {:?} vs {:?}", &impl_warn[..n], &model_warn[..n])));
        }
    }
    // TRACE typed before RUN == tracing field
    match run_cfg(&lines, c, true, true, true) {
        Err(Crash(p)) => return Verdict::fail("panic", show(p)),
        Ok(Err(e)) => return Verdict::fail("trace-command-failed", show(format!("{:?}", e))),
        Ok(Ok((_, tr))) => {
            if tr.events != full.events || tr.end != full.end {
                return Verdict::fail("trace-command-differs-from-field", show(format!("{} vs {} events", tr.events.len(), full.events.len())));
            }
        }
    }
    // TRACE / NOTRACE typed in the middle of a broken run
    for (start_tracing, cmd) in [(false, "TRACE"), (true, "NOTRACE")] {
        let mut sess = Sess::new();
        sess.randomize(c.seed);
        sess.set_options(false, start_tracing);
        match sess.enter_program(&lines) {
            Ok(Ok(())) => {}
            other => return Verdict::fail("valid-line-rejected", show(format!("{:?}", other.map_err(|c| c.0)))),
        }
        let mut host = Toggler { at: c.toggle_after as u64, cmd, done: false, toggled_at_event: None, calls_at_toggle: 0 };
        let tr = match drive(&mut sess, "RUN", &c.replies, BUDGET * 2, &mut host) {
            Ok(t) => t,
            Err(Crash(p)) => return Verdict::fail(if p.contains("panic") { "panic" } else { "trace-command-at-breakpoint" }, show(p)),
        };
        let reference = Transcript { events: base_ev.clone(), end: base_end.clone(), calls: 0, stops: 0, replies: 0 };
        if let Err(why) = same_behaviour(&reference, &tr) {
            return Verdict::fail("trace-toggle-changes-behaviour", show(format!("{} after {} calls: {}", cmd, c.toggle_after, why)));
        }
        if host.done {
            // the command takes effect from the breakpoint on: the STOP-like BREAK notice of the host break marks it
            let split = host.toggled_at_event.unwrap_or(0).min(tr.events.len());
            let before = tr.events[..split].iter().filter(|e| matches!(e, TEvent::Trace(_))).count();
            let after = tr.events[split..].iter().filter(|e| matches!(e, TEvent::Trace(_))).count();
            if cmd == "NOTRACE" && after > 0 {
                return Verdict::fail("notrace-does-not-stop-tracing", show(format!("{} trace records after NOTRACE typed after {} calls", after, c.toggle_after)));
            }
            if cmd == "TRACE" && before > 0 {
                return Verdict::fail("trace-before-trace-command", show(format!("{} trace records before TRACE was typed", before)));
            }
            if cmd == "TRACE" && after == 0 && tr.calls > host.calls_at_toggle + 2 {
                return Verdict::fail("trace-command-does-not-start-tracing", show(format!("no trace record in {} calls after TRACE", tr.calls - host.calls_at_toggle)));
            }
        }
        if host.done {
            rec.class("trace-toggled-mid-run");
        }
    }
    let differ = runs[3].3.events.len() != runs[0].3.events.len();
    if !impl_warn.is_empty() {
        rec.class("has-warnings");
    }
    if impl_warn.iter().any(|(w, _)| w.contains("array")) {
        rec.class("undeclared-array-warning");
    }
    if m.features.contains("function") && !impl_warn.is_empty() {
        rec.class("warnings+functions");
    }
    rec.extra_evals = 6;
    rec.nontrivial_if(!impl_warn.is_empty() && impl_trace.len() >= 3 && differ, hash_str(&lines.join("\n")));
    Verdict::Pass
}

pub fn property() -> Property {
    let families: Vec<Box<dyn Family>> = vec![
        prop_family("programs-x-configurations", 25_000, 400_000, |_| case(), check),
        prop_family("repo-programs", 300, 10_000, |_| repo_case(), check),
    ];
    Property {
        id: "C17",
        rule: "Grammar-generated programs (INPUT allowed, reply scripts) that read never-assigned variables and touch undeclared arrays in conditions, subscripts, function bodies and READ/INPUT targets, run in all four warnings x tracing configurations set through the public fields, once more with TRACE typed before RUN, and twice with TRACE / NOTRACE typed at a breakpoint in the middle of the run (7 runs per case). (i) With Trace and Warning records removed, the event sequence (prints, notices, replies), the outcome and the final scalar values + state snapshot are identical in all configurations; a disabled option emits none of its records; the TRACE command equals the field. (ii) In the fully enabled run the trace records with immediate repeats collapsed equal the reference interpreter's collapsed statement-entry line sequence, and the ordered list of (warning text, line) equals the reference interpreter's (one 'Use of undeclared variable' per read of a variable absent from globals and frames, one 'Use of undeclared array' per cell read or write of a non-existent array, attributed to the line being executed). Non-trivial: >= 1 warning, >= 3 collapsed trace records and the raw outputs of the configurations really differ; distinct by program text.",
        assumptions: vec!["the reference interpreter defines when a warning is due; budget-limited runs are compared on prefixes"],
        fuzz: None,
        families,
        prelude: Some(Box::new(|_, rec| {
            let n = crate::selftest::run()?;
            rec.set_extra("model_selftest_programs", serde_json::json!(n));
            Ok(vec![])
        })),
        epilogue: None,
    }
}
