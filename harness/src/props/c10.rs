//! C10 — RUN starts from a clean slate regardless of session history.

use crate::ast::*;
use crate::core::*;
use crate::gen::{self, GenCfg, NUM_VARS, STR_VARS};
use crate::run::*;
use crate::sess::*;
use proptest::prelude::*;
use serde::{Deserialize, Serialize};

pub const BUDGET: u64 = 600;

#[derive(Serialize, Deserialize, Debug, Clone)]
pub struct HistCase {
    #[serde(default)]
    pub raw_lines: Option<Vec<String>>,
    pub prog: Program,
    pub style: Style,
    pub history: Vec<Intent>,
    pub final_seed: u64,
    pub replies: Vec<String>,
    pub warnings: bool,
}

const EDIT_TEXT: &[&str] = &["DATA 7, \"x\", 8", "REM edited", "PRINT \"e\"", "DATA \"only\"", "Q = Q + 1", "READ Q, V"];
const IMMEDIATE: &[&str] = &[
    "Q = 5", "V = 1 : W = 2", "C$ = \"old\"", "K$ = \"left over\"", "VV(3) = 9", "WW(1,2) = 4", "VV$(2) = \"cell\"", "C(5) = 1", "DIM VV(20)", "DIM WW(3,3)",
    "DIM YY(2,2,2)", "DIM Q(9)", "FOR C = 1 TO 5", "FOR J = 9 TO 1 STEP -1", "FOR K = 1 TO 2 : FOR Y = 1 TO 2", "NEXT C", "READ Q", "READ Q, V, W", "READ C$",
    "RESTORE", "PRINT QQ(1)", "PRINT KK(1,2)", "PRINT JJ(1,\"a\")", "PRINT ZZ$(\"z\")", "PRINT RND(1)", "Z1 = 99 : Z2 = 99 : Z3 = 99", "K2 = 7 : C1 = 8 : Y = 9 : J = 10 : K = 11 : C = 12",
    "J$ = \"j\" : Q$ = \"q\" : W1$ = \"w\"", "RETURN", "STOP", "END", "TRACE", "NOTRACE", "LIST", "INPUT Q", "INPUT C$", "PRINT 1/0", "PRINT \"unterminated", "THEN", "X Y Z",
];

fn history(targets: Vec<u64>) -> impl Strategy<Value = Vec<Intent>> {
    let t1 = targets.clone();
    let t3 = targets.clone();
    let t4 = targets.clone();
    let t5 = targets.clone();
    let t2 = targets;
    let pool = reply_pool_with_multiline();
    let intent = prop_oneof![
        5 => Just(Intent::Line("RUN".into())),
        2 => Just(Intent::Line("CONT".into())),
        8 => (0..IMMEDIATE.len()).prop_map(|i| Intent::Line(IMMEDIATE[i].to_string())),
        2 => (0..t1.len().max(1)).prop_map(move |i| Intent::Line(format!("GOTO {}", t1.get(i).copied().unwrap_or(0)))),
        2 => (0..t2.len().max(1)).prop_map(move |i| Intent::Line(format!("GOSUB {}", t2.get(i).copied().unwrap_or(0)))),
        8 => (1u16..80).prop_map(Intent::Continue),
        3 => Just(Intent::Break),
        4 => (0..pool.len()).prop_map(move |i| Intent::Reply(pool[i].to_string())),
        1 => any::<u64>().prop_map(Intent::Seed),
        // edits of the program: delete a line, replace it, add one (the fresh side gets the final listing)
        1 => (0..t3.len().max(1)).prop_map(move |i| Intent::Line(format!("{}", t3.get(i).copied().unwrap_or(0)))),
        1 => (0..t4.len().max(1), 0..EDIT_TEXT.len()).prop_map(move |(i, k)| Intent::Line(format!("{} {}", t4.get(i).copied().unwrap_or(0), EDIT_TEXT[k]))),
        1 => (0..t5.len().max(1), 0..EDIT_TEXT.len()).prop_map(move |(i, k)| Intent::Line(format!("{} {}", t5.get(i).copied().unwrap_or(0) + 1, EDIT_TEXT[k]))),
    ];
    prop::collection::vec(intent, 0..40)
}

fn case() -> impl Strategy<Value = HistCase> {
    let cfg = GenCfg { max_blocks: 10, ..GenCfg::C03.with_input() };
    // one case in twelve has no program at all: RUN must then still wipe what the prompt left behind
    let prog = prop_oneof![11 => gen::program(cfg), 1 => Just(Program::default())];
    (prog, gen::style(), any::<u64>(), super::c07::replies_multiline(), any::<bool>()).prop_flat_map(|(prog, style, final_seed, replies, warnings)| {
        let targets: Vec<u64> = prog.lines.iter().map(|l| l.number).collect();
        history(targets).prop_map(move |history| HistCase { raw_lines: None, prog: prog.clone(), style, history, final_seed, replies: replies.clone(), warnings })
    })
}

fn probes(sess: &mut Sess) -> Result<Vec<String>, Crash> {
    let mut out = vec![];
    let snap = sess.interp.verif_snapshot();
    out.push(format!("{:?}", snap));
    // what the finished run left behind for the control commands: a point to continue
    // from, frames, loops, the DATA cursor
    for cmd in ["CONT", "RETURN", "NEXT C", "READ Q9$ : PRINT Q9$", "CONT"] {
        let mut o = vec![];
        let mut b = 60u64;
        let stop = sess.line_and_run(cmd, &mut b, &mut o)?;
        let how = match &stop {
            RunStop::Error(e) => format!("error {:?} {:?}", e.kind, e.line),
            other => format!("{:?}", other),
        };
        out.push(format!("{} -> {:?} / {}", cmd, o, how));
        if sess.state()? != St::Idle {
            sess.brk()?;
        }
    }
    let mut names: Vec<String> = NUM_VARS.iter().chain(STR_VARS.iter()).map(|s| s.to_string()).collect();
    for i in 1..6 {
        names.push(format!("Z{}", i));
    }
    for n in names {
        let mut o = vec![];
        let mut b = 20u64;
        let stop = sess.line_and_run(&format!("PRINT {}", n), &mut b, &mut o)?;
        out.push(format!("{}={:?}/{:?}", n, printed(&o), matches!(stop, RunStop::Idle)));
    }
    for (name, dims, _, _) in &snap.arrays {
        if snap.functions.contains(name) {
            continue;
        }
        for k in [0usize, 1, 3] {
            let subs: Vec<String> = dims.iter().map(|d| (k.min(d - 1)).to_string()).collect();
            let mut o = vec![];
            let mut b = 20u64;
            let _ = sess.line_and_run(&format!("PRINT {}({})", name, subs.join(",")), &mut b, &mut o)?;
            out.push(format!("{}({})={:?}", name, subs.join(","), printed(&o)));
        }
    }
    Ok(out)
}

fn repo_case() -> impl Strategy<Value = HistCase> {
    (0usize..2, any::<u64>(), crate::textgen::numeric_replies(), any::<bool>()).prop_flat_map(|(w, final_seed, replies, warnings)| {
        let lines = crate::textgen::repo_program(w);
        let targets: Vec<u64> = lines.iter().filter_map(|l| l.trim_start().split(' ').next().and_then(|n| n.parse().ok())).collect();
        history(targets).prop_map(move |history| HistCase { raw_lines: Some(lines.clone()), prog: Program::default(), style: Style::PLAIN, history, final_seed, replies: replies.clone(), warnings })
    })
}

fn check(c: &HistCase, rec: &mut CaseRec) -> Verdict {
    let lines = c.raw_lines.clone().unwrap_or_else(|| render_program(&c.prog, c.style));
    let mut used = Sess::new();
    used.set_options(c.warnings, false);
    match used.enter_program(&lines) {
        Err(Crash(p)) => return Verdict::fail("panic", p),
        Ok(Err(e)) => return Verdict::fail("valid-line-rejected", format!("{:?} in {:?}", e, lines)),
        Ok(Ok(())) => {}
    }
    let show = |why: String| format!("{}; program {:?} history {:?} replies {:?}", why, lines, c.history, c.replies);
    let mut kinds = vec![];
    for i in &c.history {
        // a reply offered while idle would be submitted as a line (and replies that
        // start with a digit would edit the program): the history must not edit
        if let Intent::Reply(_) = i {
            if used.state().map(|s| s != St::AwaitingInput).unwrap_or(true) {
                continue;
            }
        }
        match used.apply(i) {
            Err(Crash(p)) => return Verdict::fail("panic", show(p)),
            Ok(calls) => {
                for (k, _, r) in calls {
                    kinds.push((k as u8, r.err.is_some(), r.state as u8));
                }
            }
        }
    }
    match used.state() {
        Ok(St::Idle) => {}
        Ok(_) => {
            if let Err(Crash(p)) = used.brk() {
                return Verdict::fail("panic", show(p));
            }
        }
        Err(Crash(p)) => return Verdict::fail("panic", show(p)),
    }
    let before = used.interp.verif_snapshot();
    let live = !before.variables.is_empty()
        || !before.arrays.is_empty()
        || !before.frames.is_empty()
        || !before.loops.is_empty()
        || before.has_data_cursor
        || !before.functions.is_empty()
        || before.has_breakpoint
        || before.pending_input;
    // fresh interpreter holding the same program (the history may have edited it: take the
    // listing as it is now), same option flags
    let final_lines: Vec<String> = match used.list() {
        Ok(l) => l.into_iter().map(|l| l.trim_end_matches('\n').to_string()).collect(),
        Err(Crash(p)) => return Verdict::fail("panic", format!("LIST: {}", p)),
    };
    let mut fresh = Sess::new();
    fresh.set_options(used.interp.enable_warnings, used.interp.enable_tracing);
    used.warnings = used.interp.enable_warnings;
    used.tracing = used.interp.enable_tracing;
    match fresh.enter_program(&final_lines) {
        Ok(Ok(())) => {}
        Ok(Err(e)) => return Verdict::fail("fresh-rejects-program", show(e.text)),
        Err(Crash(p)) => return Verdict::fail("panic-fresh", show(p)),
    }
    used.randomize(c.final_seed);
    fresh.randomize(c.final_seed);
    let tu = match drive(&mut used, "RUN", &c.replies, BUDGET, &mut NoHost) {
        Ok(t) => t,
        Err(Crash(p)) => return Verdict::fail("panic", show(p)),
    };
    let tf = match drive(&mut fresh, "RUN", &c.replies, BUDGET, &mut NoHost) {
        Ok(t) => t,
        Err(Crash(p)) => return Verdict::fail("panic-fresh", show(p)),
    };
    if tu.events != tf.events || tu.end != tf.end {
        let n = tu.events.len().min(tf.events.len());
        let i = (0..n).find(|i| tu.events[*i] != tf.events[*i]);
        let key = if before.pending_input { "run-differs-with-pending-reply" } else { "run-differs-from-fresh" };
        return Verdict::fail(
            key,
            show(format!(
                "state before RUN {:?}; first difference {:?}: used {:?} / fresh {:?}; ends {:?} / {:?}",
                before,
                i,
                i.map(|i| &tu.events[i]).or(tu.events.get(n)),
                i.map(|i| &tf.events[i]).or(tf.events.get(n)),
                tu.end,
                tf.end
            )),
        );
    }
    if tu.end != End::Budget {
        for s in [&mut used, &mut fresh] {
            if s.state().map(|st| st != St::Idle).unwrap_or(false) {
                let _ = s.brk();
            }
        }
        let pu = match probes(&mut used) {
            Ok(p) => p,
            Err(Crash(p)) => return Verdict::fail("panic", show(p)),
        };
        let pf = match probes(&mut fresh) {
            Ok(p) => p,
            Err(Crash(p)) => return Verdict::fail("panic-fresh", show(p)),
        };
        if pu != pf {
            let d = pu.iter().zip(&pf).find(|(a, b)| a != b).map(|(a, b)| format!("{} vs {}", a, b)).unwrap_or_default();
            return Verdict::fail("state-after-run-differs", show(format!("state before RUN {:?}; {}", before, d)));
        }
    }
    if live {
        rec.class("live-state-before-run");
    }
    if before.pending_input {
        rec.class("pending-reply-before-run");
    }
    if before.has_breakpoint {
        rec.class("breakpoint-before-run");
    }
    if !before.loops.is_empty() {
        rec.class("open-loops-before-run");
    }
    if !before.frames.is_empty() {
        rec.class("frames-before-run");
    }
    if before.has_data_cursor {
        rec.class("data-cursor-before-run");
    }
    if !before.functions.is_empty() {
        rec.class("functions-before-run");
    }
    rec.nontrivial_if(live && tu.calls >= 3, hash_of(&(lines.join("\n"), kinds)));
    Verdict::Pass
}

pub fn property() -> Property {
    let families: Vec<Box<dyn Family>> = vec![
        enum_family(
            "pending-reply-witness",
            true,
            |_| 1,
            |_, _| HistCase {
                raw_lines: None,
                prog: Program {
                    lines: vec![
                        Line { number: 10, stmts: vec![Stmt::Input(LValue::Var("Q".into()))] },
                        Line { number: 20, stmts: vec![Stmt::Print(vec![PrintItem::Expr(Expr::var("Q"))])] },
                    ],
                },
                style: Style::PLAIN,
                history: vec![Intent::Line("RUN".into()), Intent::Reply("5".into()), Intent::Break],
                final_seed: 1,
                replies: vec!["7".into()],
                warnings: false,
            },
            check,
        ),
        prop_family("histories", 80_000, 1_500_000, |_| case(), check),
        prop_family("repo-programs", 1_500, 50_000, |_| repo_case(), check),
    ];
    Property {
        id: "C10",
        rule: "A grammar-generated program (INPUT/STOP allowed; one case in twelve: no program at all) is entered, then a history of 0-40 intents is applied to the same interpreter: RUN / CONT, continue n turns, breaks, replies incl. replies of several lines (so runs are left completed, failed, broken, awaiting input, or replied-to-then-broken), immediate statements that assign scalars and cells, DIM arrays the program also uses, open FOR loops, READ part of the DATA, call the program's functions, GOTO / GOSUB into the program, TRACE/NOTRACE, failing lines. Then both this interpreter and a fresh one holding the same lines (same option flags) are seeded alike and RUN under the same reply script. Oracle: identical event sequence (prints, notices, replies consumed, trace/warning records, STOP notices) and outcome; afterwards identical state snapshot (hook), identical behaviour of the control probes CONT / RETURN / NEXT / READ typed at the prompt, and identical PRINT probes of all pool scalars, counters and sample cells of every array. Non-trivial: the snapshot before the final RUN shows live state (variables, arrays, frames, loops, data cursor, functions, breakpoint or a pending reply) and the run makes >= 3 calls; distinct by program + call-kind/outcome sequence of the history.",
        assumptions: vec!["runs are bounded by 600 program-advancing calls; budget-limited runs are compared event by event up to the budget"],
        fuzz: None,
        families,
        prelude: None,
        epilogue: None,
    }
}
