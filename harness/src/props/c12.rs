//! C12 — spacing and letter case outside literal text never change meaning.

use crate::core::*;
use crate::sess::*;
use crate::textgen::is_basic_blank;
use abasic_core::verif_hooks::{tokenize_with_ranges, TokenizeFailureKind};
use abasic_core::Token;
use proptest::prelude::*;
use serde::{Deserialize, Serialize};

/// A piece of a line, tagged by construction (not by the tokenizer under test).
#[derive(Serialize, Deserialize, Debug, Clone, PartialEq)]
pub enum Seg {
    /// Keywords, identifiers, numerals, operators, punctuation, string quotes,
    /// blanks: blanks may be inserted / removed anywhere, letters may change case.
    Free(String),
    /// String-literal interior, REM tail: untouched, and nothing is inserted
    /// directly next to it.
    Prot(String),
    /// One DATA item (quoted, bare or numeric): interior untouched, blanks may
    /// be inserted directly before and after it.
    Item(String),
}

#[derive(Serialize, Deserialize, Debug, Clone)]
pub struct SegLine {
    pub segs: Vec<Seg>,
    pub salt: u64,
}

const KEYWORDS_FREE: &[&str] = &[
    "DIM", "LET", "PRINT", "INPUT", "GOTO", "GOSUB", "RETURN", "IF", "THEN", "ELSE", "AND", "OR", "NOT", "END", "STOP", "FOR", "TO", "NEXT",
    "STEP", "READ", "RESTORE", "DEF", "GO TO", "?",
];
const IDENTS: &[&str] = &["X", "I", "N", "A$", "B2", "SCORE", "TOTAL", "FORK", "NOTE", "XTHEN", "KEY$", "LIFE", "STOPS", "Y1", "abs", "Int", "rnd", "fn"];
const NUMERALS: &[&str] = &["1", "23", ".5", "007", "1.", "3.14", "1 2", "100", "0", "1..2", "."];
const OPS: &[&str] = &["<", "=", ">", "<=", "<>", ">=", "< =", "< >", "> =", "(", ")", ",", ":", ";", "+", "-", "*", "/", "^"];
const STR_TEXT: &[&str] = &["", "a", "hello world", "  pad  ", "Mixed Case", "é😊", "REM x", "DATA 1,2", ":,;", "tab\there"];
const REM_TEXT: &[&str] = &["", " a comment", "tight", " Mixed  Case é", " \"quoted\"", " : PRINT 1"];
const BARE_ITEMS: &[&str] = &["abc", "hello world", "Mixed Case", "é", "1a", "x1", "A B  C"];
const NUM_ITEMS: &[&str] = &["1", "42", "-3", "0.5", ".5", "007"];
const QUOTED_ITEMS: &[&str] = &["\"\"", "\"a\"", "\"a b\"", "\" pad \"", "\"x,y\"", "\"a:b\"", "\"Mixed\"", "\"é\""];
const ILLEGAL: &[&str] = &["%", "é", "!", "&", "😊", "_"];

fn pick(v: &'static [&'static str]) -> BoxedStrategy<String> {
    (0..v.len()).prop_map(move |i| v[i].to_string()).boxed()
}

/// A proper prefix or suffix of a keyword (`NO`, `TH`, `HEN`, `OSUB`, ...), in
/// upper, lower or mixed case: the identifier scanner's keyword look-ahead and the
/// keyword matchers meet exactly at such fragments.
fn keyword_fragment() -> impl Strategy<Value = String> {
    use crate::textgen::KEYWORDS;
    (0..KEYWORDS.len(), any::<u16>(), any::<bool>(), 0u8..3, any::<u16>()).prop_map(|(k, cut, prefix, case, mask)| {
        let kw = KEYWORDS[k];
        let c = 1 + idx(cut, kw.len() - 1);
        let frag = if prefix { &kw[..c] } else { &kw[c..] };
        frag.chars()
            .enumerate()
            .map(|(i, ch)| match case {
                0 => ch,
                1 => ch.to_ascii_lowercase(),
                _ => {
                    if mask >> (i % 16) & 1 == 1 {
                        ch.to_ascii_lowercase()
                    } else {
                        ch
                    }
                }
            })
            .collect()
    })
}

fn free_atom() -> impl Strategy<Value = Vec<Seg>> {
    prop_oneof![
        6 => pick(KEYWORDS_FREE),
        6 => pick(IDENTS),
        4 => pick(NUMERALS),
        6 => pick(OPS),
        2 => pick(&[" ", "  ", "\t", " \t "]),
        // identifiers over every letter, and tight digit/letter/sign runs (the
        // shapes of exponents, hex-like numerals, suffixes: `2E3`, `5e-3`, `1D+2`)
        3 => "[A-Za-z]{1,3}[0-9]?\\$?",
        3 => "[0-9.]{1,3}[A-Za-z]{1,2}[+-]?[0-9]{1,2}",
        // keyword fragments alone, glued to a following keyword, glued behind a letter
        2 => keyword_fragment(),
        3 => (keyword_fragment(), pick(KEYWORDS_FREE)).prop_map(|(f, k)| format!("{}{}", f, k)),
        1 => ("[A-Za-z]", keyword_fragment(), pick(KEYWORDS_FREE)).prop_map(|(a, f, k)| format!("{}{}{}", a, f, k)),
    ]
    .prop_map(|s| vec![Seg::Free(s)])
}

fn string_chunk() -> impl Strategy<Value = Vec<Seg>> {
    pick(STR_TEXT).prop_map(|t| vec![Seg::Free("\"".into()), Seg::Prot(t), Seg::Free("\"".into())])
}

fn data_chunk() -> impl Strategy<Value = Vec<Seg>> {
    (
        prop::collection::vec((prop_oneof![pick(BARE_ITEMS), pick(NUM_ITEMS), pick(QUOTED_ITEMS)], pick(&["", " ", "  "]), pick(&["", " ", "\t"])), 0..5),
        pick(&["DATA", "data", "Data", "DA TA"]),
        pick(&["", " "]),
    )
        .prop_map(|(items, kw, after_kw)| {
            let mut v = vec![Seg::Free(format!("{}{}", kw, after_kw))];
            let n = items.len();
            for (i, (it, pre, post)) in items.into_iter().enumerate() {
                v.push(Seg::Free(pre));
                v.push(Seg::Item(it));
                v.push(Seg::Free(post));
                if i + 1 < n {
                    v.push(Seg::Free(",".into()));
                }
            }
            v
        })
}

#[derive(Debug, Clone)]
enum Tail {
    None,
    Rem(String, String),
    Unterminated(String),
    Illegal(String),
}

fn tail() -> impl Strategy<Value = Tail> {
    prop_oneof![
        10 => Just(Tail::None),
        3 => (pick(&["REM", "rem", "R E M", "Rem"]), pick(REM_TEXT)).prop_map(|(k, t)| Tail::Rem(k, t)),
        1 => pick(STR_TEXT).prop_map(Tail::Unterminated),
        1 => pick(ILLEGAL).prop_map(Tail::Illegal),
    ]
}

pub fn seg_line() -> impl Strategy<Value = SegLine> {
    let chunk = prop_oneof![
        12 => free_atom(),
        2 => string_chunk(),
    ];
    (
        prop::collection::vec(chunk, 0..10),
        prop::option::weighted(0.25, (data_chunk(), prop::bool::ANY, prop::collection::vec(free_atom(), 0..4))),
        tail(),
        any::<u64>(),
    )
        .prop_map(|(chunks, data, tail, salt)| {
            let mut segs: Vec<Seg> = chunks.into_iter().flatten().collect();
            if let Some((d, colon, after)) = data {
                // a DATA statement starts a statement: precede it with a colon if anything is before it
                if !segs.is_empty() {
                    segs.push(Seg::Free(":".into()));
                }
                segs.extend(d);
                if colon {
                    segs.push(Seg::Free(":".into()));
                    segs.extend(after.into_iter().flatten());
                } else {
                    return SegLine { segs: normalize(segs), salt };
                }
            }
            match tail {
                Tail::None => {}
                Tail::Rem(k, t) => {
                    segs.push(Seg::Free(k));
                    segs.push(Seg::Prot(t));
                }
                Tail::Unterminated(t) => {
                    segs.push(Seg::Free("\"".into()));
                    segs.push(Seg::Prot(t.replace('"', "")));
                }
                Tail::Illegal(t) => segs.push(Seg::Free(t)),
            }
            SegLine { segs: normalize(segs), salt }
        })
}

/// Merges adjacent Free segments and drops empty ones.
pub fn normalize(segs: Vec<Seg>) -> Vec<Seg> {
    let mut out: Vec<Seg> = vec![];
    for s in segs {
        match (out.last_mut(), &s) {
            (Some(Seg::Free(a)), Seg::Free(b)) => a.push_str(b),
            _ => out.push(s),
        }
    }
    out
}

/// True when the free text accidentally spells REM or DATA other than through
/// the dedicated chunks (then the protected map would be wrong): such lines
/// are excluded.
fn accidental_rem_or_data(segs: &[Seg]) -> bool {
    // Count intended occurrences: a Free segment directly followed by Prot via
    // REM, or by Item/end via DATA, ends with the keyword. Everything else must
    // not contain the crunched keyword.
    let mut crunched = String::new();
    let mut intended = 0;
    for (i, s) in segs.iter().enumerate() {
        match s {
            Seg::Free(t) => {
                for ch in t.chars() {
                    if ch.is_ascii() && !is_basic_blank(ch as u8) {
                        crunched.push(ch.to_ascii_uppercase());
                    } else if !ch.is_ascii() {
                        crunched.push('#');
                    }
                }
                let _ = i;
            }
            // a marker no free text can contain (non-ASCII free characters become '#')
            Seg::Prot(_) | Seg::Item(_) => crunched.push('§'),
        }
    }
    for (i, _) in crunched.match_indices("REM") {
        // intended iff directly followed by a protected marker
        if crunched[i + 3..].starts_with('§') {
            intended += 1;
        } else {
            return true;
        }
    }
    for (i, _) in crunched.match_indices("DATA") {
        let rest = &crunched[i + 4..];
        if rest.is_empty() || rest.starts_with('§') || rest.starts_with(':') {
            intended += 1;
        } else {
            return true;
        }
    }
    let _ = intended;
    false
}

#[derive(Debug, Clone, PartialEq)]
enum Tok {
    Ok(Vec<Token>),
    Err(TokenizeFailureKind, Vec<Token>),
}

fn toks(text: &str) -> Result<Tok, String> {
    match catch(|| tokenize_with_ranges(text, 0))? {
        Ok(v) => Ok(Tok::Ok(v.into_iter().map(|(t, _)| t).collect())),
        Err(f) => Ok(Tok::Err(f.kind, f.tokens_before.into_iter().map(|(t, _)| t).collect())),
    }
}

/// Insertion positions: (segment index, byte offset in that segment's text).
fn positions(segs: &[Seg]) -> Vec<(usize, usize)> {
    let mut out = vec![];
    for (si, s) in segs.iter().enumerate() {
        if let Seg::Free(t) = s {
            let prev_prot = si > 0 && matches!(segs[si - 1], Seg::Prot(_));
            let next_prot = si + 1 < segs.len() && matches!(segs[si + 1], Seg::Prot(_));
            for (off, _) in t.char_indices().chain(std::iter::once((t.len(), ' '))) {
                if off == 0 && prev_prot {
                    continue;
                }
                if off == t.len() && next_prot {
                    continue;
                }
                out.push((si, off));
            }
        }
    }
    // an Item directly followed by an Item / end without a Free in between cannot occur (generator always wraps items in Free segments)
    out
}

fn render_with(segs: &[Seg], inserts: &[((usize, usize), &str)], case: &dyn Fn(usize, usize, char) -> char, drop_blanks: bool) -> String {
    let mut out = String::new();
    let mut letter_no = 0usize;
    for (si, s) in segs.iter().enumerate() {
        match s {
            Seg::Free(t) => {
                for (off, ch) in t.char_indices() {
                    for (p, b) in inserts {
                        if *p == (si, off) {
                            out.push_str(b);
                        }
                    }
                    if drop_blanks && ch.is_ascii() && is_basic_blank(ch as u8) {
                        continue;
                    }
                    if ch.is_ascii_alphabetic() {
                        out.push(case(si, letter_no, ch));
                        letter_no += 1;
                    } else {
                        out.push(ch);
                    }
                }
                for (p, b) in inserts {
                    if *p == (si, t.len()) {
                        out.push_str(b);
                    }
                }
            }
            Seg::Prot(t) | Seg::Item(t) => out.push_str(t),
        }
    }
    out
}

fn count_letters(segs: &[Seg]) -> usize {
    segs.iter()
        .map(|s| if let Seg::Free(t) = s { t.chars().filter(|c| c.is_ascii_alphabetic()).count() } else { 0 })
        .sum()
}

fn mixr(x: u64) -> u64 {
    splitmix(x)
}

/// The line as typed (no perturbation): used by C14 as a source of token-dense lines.
pub fn base_text(c: &SegLine) -> String {
    render_with(&c.segs, &[], &|_, _, ch| ch, false)
}

pub fn check(c: &SegLine, rec: &mut CaseRec) -> Verdict {
    let segs = &c.segs;
    if accidental_rem_or_data(segs) {
        rec.excluded = 1;
        return Verdict::Pass;
    }
    let same = |_: usize, _: usize, ch: char| ch;
    let base = render_with(segs, &[], &same, false);
    let base_t = match toks(&base) {
        Ok(t) => t,
        Err(p) => return Verdict::fail("panic", format!("{:?}: {}", base, p)),
    };
    let pos = positions(segs);
    let nletters = count_letters(segs);
    let mut variants: Vec<(String, String)> = vec![];
    // all blanks removed / a blank, a tab, three blanks in every gap
    variants.push(("no-blanks".into(), render_with(segs, &[], &same, true)));
    for b in [" ", "\t", "   "] {
        let ins: Vec<((usize, usize), &str)> = pos.iter().map(|p| (*p, b)).collect();
        variants.push((format!("everywhere{:?}", b), render_with(segs, &ins, &same, false)));
    }
    // each single gap individually
    for p in &pos {
        variants.push((format!("at{:?}", p), render_with(segs, &[(*p, " ")], &same, false)));
    }
    // gap subsets: exhaustive for k <= 8, random otherwise
    let k = pos.len();
    if k <= 8 {
        for mask in 0u32..(1 << k) {
            let ins: Vec<((usize, usize), &str)> = pos.iter().enumerate().filter(|(i, _)| mask >> i & 1 == 1).map(|(_, p)| (*p, " ")).collect();
            variants.push((format!("subset{:b}", mask), render_with(segs, &ins, &same, true)));
        }
        rec.class("gap-subsets-exhaustive");
    } else {
        for r in 0..24u64 {
            let m = mixr(c.salt ^ r);
            let ins: Vec<((usize, usize), &str)> = pos
                .iter()
                .enumerate()
                .filter(|(i, _)| mixr(m ^ (*i as u64)) % 3 == 0)
                .map(|(i, p)| (*p, if mixr(m ^ (i as u64) ^ 77) % 4 == 0 { "\t" } else { " " }))
                .collect();
            variants.push((format!("random-subset{}", r), render_with(segs, &ins, &same, r % 2 == 0)));
        }
    }
    // case: all lower, all upper, each single letter flipped, random flips
    variants.push(("lower".into(), render_with(segs, &[], &|_, _, ch| ch.to_ascii_lowercase(), false)));
    variants.push(("upper".into(), render_with(segs, &[], &|_, _, ch| ch.to_ascii_uppercase(), false)));
    let flip = |ch: char| if ch.is_ascii_uppercase() { ch.to_ascii_lowercase() } else { ch.to_ascii_uppercase() };
    for i in 0..nletters {
        variants.push((format!("flip{}", i), render_with(segs, &[], &|_, n, ch| if n == i { flip(ch) } else { ch }, false)));
    }
    for r in 0..6u64 {
        let m = mixr(c.salt ^ (r + 1000));
        variants.push((
            format!("random-flips{}", r),
            render_with(segs, &[], &|_, n, ch| if mixr(m ^ n as u64) % 2 == 0 { flip(ch) } else { ch }, r % 2 == 0),
        ));
    }
    let mut changed = 0u64;
    for (what, text) in &variants {
        if text != &base {
            changed += 1;
        }
        match toks(text) {
            Err(p) => return Verdict::fail("panic", format!("{:?}: {}", text, p)),
            Ok(t) => {
                if t != base_t {
                    let key = match (&base_t, &t) {
                        (Tok::Ok(_), Tok::Ok(_)) => "tokens-differ",
                        (Tok::Ok(_), Tok::Err(..)) => "perturbed-fails",
                        (Tok::Err(..), Tok::Ok(_)) => "perturbed-succeeds",
                        (Tok::Err(..), Tok::Err(..)) => "errors-differ",
                    };
                    return Verdict::fail(key, format!("base {:?} -> {:?}; {} {:?} -> {:?}", base, base_t, what, text, t));
                }
            }
        }
    }
    // API-level cross-check on a few variants: LIST of "10 <text>" is the same.
    let list_of = |text: &str| -> Result<Result<Vec<String>, ErrKind>, String> {
        let mut s = Sess::new();
        let line = format!("10 {}", text);
        let r = s.line(&line).map_err(|c| c.0)?;
        if let Some(e) = r.err {
            return Ok(Err(e.kind));
        }
        s.list().map(Ok).map_err(|c| c.0)
    };
    let base_list = match list_of(&base) {
        Ok(l) => l,
        Err(p) => return Verdict::fail("panic", format!("listing {:?}: {}", base, p)),
    };
    for idx in [0usize, 1, 4 + (c.salt as usize % variants.len().max(1)).min(variants.len() - 1)] {
        if let Some((what, text)) = variants.get(idx) {
            match list_of(text) {
                Err(p) => return Verdict::fail("panic", format!("listing {:?}: {}", text, p)),
                Ok(l) => {
                    if l != base_list {
                        return Verdict::fail("list-differs", format!("base {:?} lists {:?}; {} {:?} lists {:?}", base, base_list, what, text, l));
                    }
                }
            }
        }
    }
    rec.extra_evals = variants.len() as u64;
    let ntok = match &base_t {
        Tok::Ok(v) => v.len(),
        Tok::Err(_, v) => v.len(),
    };
    let interesting = segs.iter().any(|s| match s {
        Seg::Free(t) => {
            let u = t.to_ascii_uppercase();
            ["SCORE", "TOTAL", "FORK", "NOTE", "XTHEN", "STOPS", "LIFE", "<=", "<>", ">=", "< =", "< >", "> =", "1 2", "DATA", "DA TA"].iter().any(|k| u.contains(k))
        }
        _ => false,
    });
    if matches!(base_t, Tok::Err(..)) {
        rec.class("base-does-not-tokenize");
    }
    if segs.iter().any(|s| matches!(s, Seg::Item(_))) {
        rec.class("has-data-items");
    }
    if segs.iter().any(|s| matches!(s, Seg::Prot(_))) {
        rec.class("has-string-or-rem");
    }
    rec.nontrivial_if(ntok >= 4 && interesting && changed > 0, hash_str(&base));
    Verdict::Pass
}

pub fn property() -> Property {
    let families: Vec<Box<dyn Family>> = vec![prop_family("segment-lines", 150_000, 2_000_000, |_| seg_line(), check)];
    Property {
        id: "C12",
        rule: "Lines are built from segments tagged by construction as free (keywords, identifiers over the full alphabet incl. SCORE/TOTAL/FORK/NOTE/XTHEN and random 1-3 letter names, numerals incl. .5 / 007 / '1 2', tight digit-letter-sign-digit runs such as 2E3 / 5e-3 / 1.d+2, proper prefixes and suffixes of keywords in any case glued to a following keyword (NOTHEN, noThen, xTOgoto), one- and two-character operators incl. spaced ones, punctuation, quotes, blanks), protected (string interiors, REM tails, unterminated-string rests) or DATA items (quoted / bare / numeric). Per base line the check applies: all blanks removed; a blank / tab / three blanks at every free gap; each gap individually; all 2^k gap subsets when k <= 8 (random subsets otherwise); all-lower, all-upper, each single letter flipped, random flips. Oracle: the token sequence (or, for untokenizable bases, the error kind and the tokens before it) through the tokenizer hook is identical for every variant, and LIST of `10 <variant>` equals LIST of `10 <base>`. Each variant is one evaluation. Non-trivial: base with >= 4 tokens containing a keyword-bearing identifier, two-character operator, spaced numeral or DATA, and at least one variant whose bytes differ; distinct by base text. Lines whose free text accidentally spells REM or DATA are excluded (counted).",
        assumptions: vec!["the protected map comes from the generator's construction, not from the tokenizer; the exclusion rule guards the one way it could be wrong"],
        fuzz: Some(FuzzSpec { target: "c12_perturb", runs: 120_000, max_len: 96, verdict: crate::fuzz::c12_verdict }),
        families,
        prelude: None,
        epilogue: None,
    }
}
