//! C01 — no host interaction sequence can crash or wedge the interpreter.

use crate::ast::{render_program, render_stmts};
use crate::core::*;
use crate::gen::{self, GenCfg};
use crate::sess::*;
use crate::textgen::*;
use proptest::prelude::*;
use serde::{Deserialize, Serialize};

#[derive(Serialize, Deserialize, Debug, Clone)]
pub struct Session {
    pub intents: Vec<Intent>,
    /// verify caret source lines against LIST after errors on numbered lines
    pub verify_listing: bool,
}

pub const BOUNDARY_LINES: &[&str] = &[
    "18446744073709551615 PRINT 1",
    "18446744073709551614 PRINT 2",
    "18446744073709551615 GOTO 18446744073709551615",
    "18446744073709551616 PRINT 3",
    "99999999999999999999999999 PRINT 4",
    "DIM A(4294967295,4294967295)",
    "DIM B(9223372036854775807)",
    "DIM C(9223372036854775807,9223372036854775807)",
    "DIM D(18446744073709551615)",
    "DIM E(10000000000000000000)",
    "DIM F(4294967296,4294967296,4294967296)",
    "DIM G(99,99)",
    "DIM H(100,99)",
    "DIM I2(-1)",
    "DIM J(0.5)",
    "PRINT K(1,1,1,1,1,1,1,1,1,1,1,1,1,1,1,1,1,1,1)",
    "PRINT K2(10,10,10,10,10,10,10,10,10,10,10,10,10,10,10,10,10,10,10,10)",
    "L(1,1,1,1,1,1,1,1,1,1,1,1,1,1,1,1,1,1,1,1,1,1,1,1,1,1,1,1,1,1,1,1,1,1,1,1,1,1,1,1) = 1",
    "PRINT M(4294967295)",
    "PRINT M(9223372036854775807)",
    "PRINT M(99999999999999999999)",
    "PRINT M(-1)",
    "PRINT M(0.5)",
    "PRINT M(-0.5)",
    "M(18446744073709551615) = 1",
    "GOTO 99999999999999999999",
    "GOSUB 18446744073709551615",
    "GOTO 1.5",
    "GOTO -1",
    "GOTO",
    "GOSUB",
    "FOR I = 1 TO 99999999999999999999 STEP 99999999999999999",
    "FOR I = 99999999999999999999999 TO 0 STEP -99999999999999999999999",
    "FOR I = 0 TO 0 STEP 0",
    "NEXT I",
    "NEXT",
    "FOR",
    "THEN",
    "ELSE",
    "TO",
    "STEP",
    "ELSE PRINT 1",
    "THEN 10",
    "IF",
    "IF 1",
    "IF 1 THEN",
    "IF 1 THEN ELSE",
    "IF 0 THEN ELSE",
    "IF 0 THEN PRINT 1 ELSE",
    "IF 1 THEN 18446744073709551615",
    "DEF",
    "DEF FNA",
    "DEF FNA(",
    "DEF FNA(X",
    "DEF FNA(X)",
    "DEF FNA(X) =",
    "10 DEF FNA(X) = FNA(X)",
    "20 PRINT FNA(1)",
    "10 DEF FNA(X) = X/0",
    "PRINT FNA(1)",
    "PRINT FNA(",
    "PRINT FNA(1,2)",
    "PRINT FNA()",
    "INPUT X",
    "INPUT A$",
    "INPUT M(5)",
    "INPUT",
    "INPUT 1",
    "STOP",
    "CONT",
    "CONT CONT",
    "RUN",
    "RUN 10",
    "LIST",
    "LIST 10-20",
    "NEW",
    "NEW X",
    "TRACE",
    "NOTRACE",
    "STATS",
    "INTERNALS",
    "run",
    "  RUN",
    "RETURN",
    "END",
    "READ X",
    "READ",
    "RESTORE",
    "DATA",
    "10 DATA 1,2,\"x\",y",
    "READ X, Y, Z$, W",
    "REM",
    "LET",
    "LET 1 = 2",
    "X = ",
    "X",
    "= 1",
    "PRINT RND(-1)",
    "PRINT RND(0)",
    "PRINT RND(1)",
    "PRINT 2^99999",
    "PRINT -2^0.5",
    "PRINT 1/0",
    "PRINT 0/0",
    "PRINT ABS(",
    "PRINT INT()",
    "PRINT (",
    "PRINT )",
    "PRINT \"",
    "PRINT 1.2.3",
    "PRINT .",
    "PRINT 1 2 3",
    "?",
    "? ? ?",
    ":",
    "::::",
    "10",
    "10 ",
    "010 PRINT 5",
    " 10 PRINT 6",
    "10 10 10",
    "10 GOTO 10",
    "10 GOSUB 10",
    "10 FOR I = 1 TO 3 : GOTO 10",
    "10 IF 1 THEN 10",
    "10 INPUT X : GOTO 10",
    "10 STOP : GOTO 10",
    "10 PRINT \"é😊\"",
    "10 REM é",
    "é",
    "10 é",
    "PRINT \"é\" + 1",
    "\u{0}",
    "\t",
    "\r",
    "PRINT 1\nPRINT 2",
    "\u{c}PRINT 1",
];

/// Statements of neighbouring BASIC dialects (and of the TODO notes in the source)
/// that this interpreter does not accept today: each must be refused cleanly, and
/// if one of them ever becomes legal its failure paths are exercised from day one.
pub const DIALECT_LINES: &[&str] = &[
    "INPUT A, B",
    "INPUT A$, B, C(2)",
    "INPUT \"N\"; A",
    "INPUT \"HOW MANY\"; N, M$",
    "PRINT TAB(3); 1",
    "PRINT SPC(2); \"x\"",
    "ON X GOTO 10, 20",
    "ON X GOSUB 10, 20",
    "NEXT I, J",
    "FOR I = 1 TO 2 : NEXT",
    "GET A$",
    "DIM A(2), B$(3)",
    "READ A, B$, C(1)",
    "DEF FN A(X) = X + 1 : PRINT FN A(1)",
    "RESTORE 10",
    "X = 1E3",
    "X = 2e-3",
    "PRINT 5 MOD 2",
    "PRINT SQR(4)",
    "PRINT LEN(\"ab\") + VAL(\"1\")",
    "PRINT LEFT$(\"ab\", 1); MID$(\"abc\", 2); CHR$(65)",
    "A$ = STR$(1) + \"x\"",
    "POKE 1, 2",
    "HOME",
    "CLS",
    "ONERR GOTO 10",
    "WHILE X : WEND",
    "PRINT USING \"#\"; 1",
    "IF X THEN PRINT 1 : PRINT 2 ELSE PRINT 3",
    "SWAP A, B",
    "X% = 1",
    "LET A = 1, B = 2",
    "PRINT A; B, C",
    "DATA 1, X, \"s\", 2",
];

const REPLIES: &[&str] = &["1", "0", "-5", "abc", "", "\"quoted\"", "1,2", "1:2", " 7 ", "\"a\" ", "é", ",", ":", "\"", "1e5", "inf", "99999999999999999999999999999999", "\"a\",\"b\"", "x\ny", "1, X", "1,2,3", "a,b", "1, 2"];

const COMMANDS: &[&str] = &["RUN", "CONT", "LIST", "NEW", "TRACE", "NOTRACE", "STATS", "INTERNALS", "RUN", "RUN", "CONT"];

pub const SEEDS: &[u64] = &[0, 1, (1 << 33) - 1, 1 << 33, 1 << 43, 1 << 44, 1 << 63, u64::MAX];

fn intent_structured(prog_lines: Vec<String>) -> impl Strategy<Value = Intent> {
    let n = prog_lines.len().max(1);
    let pl = prog_lines.clone();
    let pl2 = prog_lines;
    let cfg = GenCfg::C03.with_input();
    prop_oneof![
        6 => (0..COMMANDS.len()).prop_map(|i| Intent::Line(COMMANDS[i].to_string())),
        8 => (1u16..60).prop_map(Intent::Continue),
        3 => Just(Intent::Break),
        5 => (0..REPLIES.len()).prop_map(|i| Intent::Reply(REPLIES[i].to_string())),
        4 => (gen::simple_stmt(cfg), gen::style()).prop_map(|(s, st)| Intent::Line(render_stmts(&[s], st))),
        // edits: re-enter a line of the program, delete one
        2 => (0..n).prop_map(move |i| Intent::Line(pl.get(i).cloned().unwrap_or_else(|| "10 REM".into()))),
        1 => (0..n).prop_map(move |i| {
            let l = pl2.get(i).cloned().unwrap_or_else(|| "10".into());
            Intent::Line(l.trim_start().chars().take_while(|c| c.is_ascii_digit()).collect())
        }),
        1 => (0..SEEDS.len()).prop_map(|i| Intent::Seed(SEEDS[i])),
        1 => any::<u64>().prop_map(Intent::Seed),
        2 => (0..BOUNDARY_LINES.len()).prop_map(|i| Intent::Line(BOUNDARY_LINES[i].to_string())),
    ]
}

pub fn structured_session() -> impl Strategy<Value = Session> {
    let cfg = GenCfg { max_blocks: 8, ..GenCfg::C03.with_input() };
    (gen::program(cfg), gen::style(), any::<u64>(), any::<bool>()).prop_flat_map(|(p, st, shuffle, verify_listing)| {
        let mut lines = render_program(&p, st);
        // typed in a pseudo-random order
        let n = lines.len();
        for i in (1..n).rev() {
            let j = (splitmix(shuffle ^ i as u64) % (i as u64 + 1)) as usize;
            if splitmix(shuffle) % 3 == 0 {
                lines.swap(i, j);
            }
        }
        let typed: Vec<Intent> = lines.iter().map(|l| Intent::Line(l.clone())).collect();
        prop::collection::vec(intent_structured(lines), 1..40).prop_map(move |script| {
            let mut intents = typed.clone();
            intents.extend(script);
            Session { intents, verify_listing }
        })
    })
}

pub fn hostile_line() -> impl Strategy<Value = String> {
    prop_oneof![
        6 => (0..BOUNDARY_LINES.len()).prop_map(|i| BOUNDARY_LINES[i].to_string()),
        2 => (0..DIALECT_LINES.len()).prop_map(|i| DIALECT_LINES[i].to_string()),
        2 => (0u8..6, 0..DIALECT_LINES.len()).prop_map(|(n, i)| format!("{} {}", 10 * (n as u32 + 1), DIALECT_LINES[i])),
        4 => atom_line(14),
        2 => (0u8..40, atom_line(10)).prop_map(|(n, l)| format!("{} {}", n, l)),
        // a boundary line truncated / spliced
        3 => (0..BOUNDARY_LINES.len(), any::<u16>(), 0..BOUNDARY_LINES.len()).prop_map(|(i, cut, j)| {
            let a = BOUNDARY_LINES[i];
            let mut c = idx(cut, a.len() + 1);
            while !a.is_char_boundary(c) {
                c -= 1;
            }
            format!("{}{}", &a[..c], BOUNDARY_LINES[j])
        }),
        2 => (0..KEYWORDS.len(), 0..KEYWORDS.len(), 0..OPERATORS.len()).prop_map(|(a, b, c)| format!("{} {} {}", KEYWORDS[a], OPERATORS[c], KEYWORDS[b])),
        1 => (1usize..400).prop_map(|n| format!("PRINT {}", "1+".repeat(n) + "1")),
        1 => (1usize..300).prop_map(|n| format!("10 {}", "PRINT 1:".repeat(n))),
        1 => (1usize..60).prop_map(|n| format!("PRINT {}1{}", "(".repeat(n), ")".repeat(n))),
        1 => (1usize..60).prop_map(|n| format!("PRINT {}1{}", "ABS(".repeat(n), ")".repeat(n))),
        1 => (1usize..60).prop_map(|n| format!("{}PRINT 1", "IF 1 THEN ".repeat(n))),
    ]
}

pub fn hostile_session() -> impl Strategy<Value = Session> {
    let intent = prop_oneof![
        10 => hostile_line().prop_map(Intent::Line),
        3 => (0..COMMANDS.len()).prop_map(|i| Intent::Line(COMMANDS[i].to_string())),
        4 => (1u16..40).prop_map(Intent::Continue),
        2 => Just(Intent::Break),
        3 => (0..REPLIES.len()).prop_map(|i| Intent::Reply(REPLIES[i].to_string())),
        1 => (0..SEEDS.len()).prop_map(|i| Intent::Seed(SEEDS[i])),
    ];
    (prop::collection::vec(intent, 1..60), any::<bool>()).prop_map(|(intents, verify_listing)| Session { intents, verify_listing })
}

fn raw_session() -> impl Strategy<Value = Session> {
    let text = prop_oneof![any::<String>(), "\\PC{0,30}", "[ -~]{0,40}", "[0-9]{1,3} [ -~]{0,30}"];
    let intent = prop_oneof![
        10 => text.clone().prop_map(Intent::Line),
        3 => text.prop_map(Intent::Reply),
        2 => Just(Intent::Line("10 INPUT A$ : PRINT A$ : INPUT X : GOTO 10".to_string())),
        2 => Just(Intent::Line("RUN".to_string())),
        3 => (1u16..20).prop_map(Intent::Continue),
        1 => Just(Intent::Break),
        1 => any::<u64>().prop_map(Intent::Seed),
    ];
    prop::collection::vec(intent, 1..40).prop_map(|intents| Session { intents, verify_listing: true })
}

fn classify_panic(p: &str) -> &'static str {
    if p.contains("program_lines.rs") && p.contains("overflow") {
        "panic-max-line-number"
    } else if p.contains("arrays.rs") && p.contains("overflow") {
        "panic-array-size-overflow"
    } else if p.contains("arrays.rs") {
        "panic-array"
    } else if p.contains("random.rs") {
        "panic-rng-overflow"
    } else if p.contains("overflow") {
        "panic-overflow"
    } else {
        "panic"
    }
}

pub fn check_session(s: &Session, rec: &mut CaseRec) -> Verdict {
    let mut sess = Sess::new();
    let mut kinds: Vec<u8> = vec![];
    let (mut errors_then_ok, mut had_error, mut breaks, mut replies, mut news, mut edits_after_run, mut ran) = (false, false, 0, 0, 0, 0, false);
    let mut cont_after_break = false;
    let mut last_was_break = false;
    for (ii, intent) in s.intents.iter().enumerate() {
        let calls = match sess.apply(intent) {
            Ok(c) => c,
            Err(Crash(p)) => return Verdict::fail(classify_panic(&p), format!("intent #{} {:?}: {}", ii, intent, p)),
        };
        for (kind, text, r) in calls {
            kinds.push(kind as u8 * 4 + if r.err.is_some() { 1 } else { 0 } + if r.state == St::Idle { 0 } else { 2 });
            match kind {
                CallKind::Break => {
                    breaks += 1;
                    last_was_break = true;
                    if r.state != St::Idle {
                        return Verdict::fail("break-does-not-idle", format!("intent #{}: state {:?} after break", ii, r.state));
                    }
                    if !r.out.iter().any(|o| matches!(o, Out::Break(_))) {
                        return Verdict::fail("break-without-notice", format!("intent #{}: no BREAK record", ii));
                    }
                }
                CallKind::Reply => {
                    replies += 1;
                    if r.state != St::Running {
                        return Verdict::fail("reply-does-not-run", format!("intent #{}: state {:?} after a reply", ii, r.state));
                    }
                }
                CallKind::Line => {
                    let t = text.as_deref().unwrap_or("");
                    let up = t.trim().to_ascii_uppercase();
                    if up.starts_with("RUN") {
                        ran = true;
                    }
                    if up.starts_with("CONT") && last_was_break && r.err.is_none() {
                        cont_after_break = true;
                    }
                    if up.starts_with("NEW") && r.replaced {
                        news += 1;
                    }
                    if ran && t.trim_start().starts_with(|c: char| c.is_ascii_digit()) {
                        edits_after_run += 1;
                    }
                    last_was_break = false;
                }
                CallKind::Continue => {
                    last_was_break = false;
                }
            }
            if let Some(e) = &r.err {
                had_error = true;
                if r.state != St::Idle {
                    return Verdict::fail("not-idle-after-error", format!("intent #{} {:?}: state {:?} after {}", ii, intent, r.state, e.text));
                }
                if e.kind == ErrKind::SyntaxTokenization {
                    // the offending source line of a tokenization error is the line just submitted
                    // (it was not stored, so the error is not "IN" any program line)
                    if let (CallKind::Line, Some(t)) = (kind, text.as_deref()) {
                        if e.line.is_some() || e.caret.len() != 2 || e.caret[0] != t {
                            return Verdict::fail(
                                "tokenization-error-shows-wrong-line",
                                format!("intent #{}: submitted {:?}; error {:?} renders {:?}", ii, t, e.text, e.caret),
                            );
                        }
                    }
                }
                let is_command = |t: &str| t.split_ascii_whitespace().next().map(|w| COMMANDS.iter().any(|c| w.eq_ignore_ascii_case(c))).unwrap_or(true);
                if kind == CallKind::Line && e.located && e.line.is_none() && e.caret.is_empty() && text.as_deref().map(|t| !is_command(t)).unwrap_or(false) {
                    // the error points into the statement line just typed (commands such as CONT install no
                    // statement and have nothing to show), and the host has its text
                    return Verdict::fail("typed-line-error-renders-nothing", format!("intent #{} {:?}: error {:?} names no line and renders nothing", ii, intent, e.text));
                }
                if kind == CallKind::Continue && e.line.is_none() {
                    if let Some(n) = sess.line_before_last_cont {
                        // the failing statement stood on a program line: the error is "IN" some line
                        return Verdict::fail("unlocated-error-in-program-line", format!("intent #{} {:?}: the cursor was on line {} but error {:?} names no line (renders {:?})", ii, intent, n, e.text, e.caret));
                    }
                }
                if kind == CallKind::Continue {
                    if let (Some(m), Some(n)) = (e.line, sess.line_before_last_cont) {
                        if m != n {
                            // the failing statement stood on line n (or, the cursor being at its end, on
                            // the line after it); only DATA items and function bodies are blamed elsewhere
                            let listing = match sess.list() {
                                Ok(l) => l,
                                Err(Crash(p)) => return Verdict::fail(classify_panic(&p), format!("LIST after an error: {}", p)),
                            };
                            let numbered: Vec<(u64, String)> = listing
                                .iter()
                                .filter_map(|l| {
                                    let (num, rest) = l.split_once(' ').unwrap_or((l.trim_end(), ""));
                                    num.trim().parse::<u64>().ok().map(|k| (k, rest.to_ascii_uppercase().chars().filter(|c| !c.is_whitespace()).collect::<String>()))
                                })
                                .collect();
                            let successor = numbered.iter().map(|(k, _)| *k).filter(|k| *k > n).min();
                            // a DATA line is blamed for an item of the wrong kind only, a DEF line for whatever
                            // fails inside the function's body
                            let elsewhere_ok = numbered.iter().any(|(k, t)| *k == m && ((t.contains("DATA") && e.kind == ErrKind::DataTypeMismatch) || t.contains("DEF")));
                            if successor != Some(m) && !elsewhere_ok {
                                return Verdict::fail(
                                    "error-attributed-to-another-line",
                                    format!("intent #{} {:?}: the cursor was on line {} but error {:?} is attributed to line {}, which is neither the next line nor a DATA / DEF line; listing {:?}", ii, intent, n, e.text, m, listing),
                                );
                            }
                        }
                    }
                }
                if e.line.is_some() && e.caret.len() != 2 {
                    // an error located on a program line can always be shown with that line
                    return Verdict::fail("no-source-line-for-located-error", format!("intent #{} {:?}: error {} renders {:?}", ii, intent, e.text, e.caret));
                }
                if let Err(why) = caret_well_formed(e) {
                    return Verdict::fail("caret-malformed", format!("intent #{} {:?}: error {} renders {:?}: {}", ii, intent, e.text, e.caret, why));
                }
                if s.verify_listing {
                    if let (Some(n), 2) = (e.line, e.caret.len()) {
                        let listing = match sess.list() {
                            Ok(l) => l,
                            Err(Crash(p)) => return Verdict::fail(classify_panic(&p), format!("LIST after error: {}", p)),
                        };
                        let prefix = format!("{} ", n);
                        let want = listing.iter().find(|l| l.starts_with(&prefix)).map(|l| l[prefix.len()..].trim_end_matches('\n').to_string());
                        match want {
                            Some(w) if w == e.caret[0] => {
                                // the caret points at the start of one of the line's tokens, or just past the line
                                if let Ok(Ok(toks)) = catch(|| abasic_core::verif_hooks::tokenize_with_ranges(&w, 0)) {
                                    let col = e.caret[1].chars().take_while(|c| *c == ' ').count();
                                    let ok = col == w.len() + 1 || toks.iter().any(|(_, r)| r.start == col);
                                    if !ok {
                                        return Verdict::fail("caret-not-at-a-token", format!("error {} in line {:?}: caret at column {}", e.text, w, col));
                                    }
                                }
                            }
                            other => {
                                return Verdict::fail(
                                    "caret-source-line-differs",
                                    format!("error {} shows {:?} but line {} lists as {:?}", e.text, e.caret[0], n, other),
                                )
                            }
                        }
                    }
                }
            } else if had_error {
                errors_then_ok = true;
            }
        }
    }
    // liveness probe: the interpreter is still usable
    match sess.state() {
        Err(Crash(p)) => return Verdict::fail("bad-final-state", p),
        Ok(St::Idle) => {}
        Ok(_) => {
            if let Err(Crash(p)) = sess.brk() {
                return Verdict::fail(classify_panic(&p), format!("final break: {}", p));
            }
        }
    }
    let mut out = vec![];
    let mut budget = 100u64;
    match sess.line_and_run("PRINT 7", &mut budget, &mut out) {
        Err(Crash(p)) => return Verdict::fail(classify_panic(&p), format!("liveness probe: {}", p)),
        Ok(RunStop::Idle) => {
            let prints: Vec<&Out> = out.iter().filter(|o| matches!(o, Out::Print(_))).collect();
            if prints != vec![&Out::Print("7\n".to_string())] {
                return Verdict::fail("liveness-probe-output", format!("PRINT 7 produced {:?}", out));
            }
        }
        Ok(other) => return Verdict::fail("liveness-probe-failed", format!("PRINT 7 ended with {:?}", other)),
    }
    if breaks > 0 {
        rec.class("break");
    }
    if cont_after_break {
        rec.class("break+CONT");
    }
    if replies > 0 {
        rec.class("reply");
    }
    if news > 0 {
        rec.class("NEW");
    }
    if edits_after_run > 0 {
        rec.class("edit-after-RUN");
    }
    if had_error {
        rec.class("error-returned");
    }
    rec.nontrivial_if(errors_then_ok || cont_after_break || replies > 0 || news > 0 || edits_after_run > 0, hash_of(&kinds));
    Verdict::Pass
}

// ------------------------------------------------------------------ deep nesting (child processes)

#[derive(Serialize, Deserialize, Debug, Clone)]
pub struct NestCase {
    pub kind: String,
    pub depth: u32,
    /// "interp" or "analyze"
    pub target: String,
}

pub const CHILD_STACK_KIB: u32 = 1024;
pub const NEST_KINDS: &[&str] = &["paren", "abs", "subscript", "if-then", "if-else-if", "call", "paren-assign", "neg-paren", "for-bound", "dim", "def-chain", "def-chain-args", "unary-run", "not-run", "then-colon-run", "print-sep-run"];

pub fn nest_text(kind: &str, d: usize) -> Vec<String> {
    match kind {
        "paren" => vec![format!("10 PRINT {}1{}", "(".repeat(d), ")".repeat(d))],
        "abs" => vec![format!("10 PRINT {}1{}", "ABS(".repeat(d), ")".repeat(d))],
        "subscript" => vec![format!("10 PRINT {}1{}", "V(".repeat(d), ")".repeat(d))],
        "if-then" => vec![format!("10 {}PRINT 1", "IF 1 THEN ".repeat(d))],
        "if-else-if" => vec![format!("10 {}PRINT 1", "IF 0 THEN PRINT 2 ELSE ".repeat(d))],
        "call" => vec!["5 DEF QQ(C) = C + 1".to_string(), format!("10 PRINT {}1{}", "QQ(".repeat(d), ")".repeat(d))],
        "paren-assign" => vec![format!("10 V({}1{}) = 1", "(".repeat(d), ")".repeat(d))],
        // long unbroken runs of tokens that a recursive implementation might descend on
        "unary-run" => vec![format!("10 PRINT {}1", "- ".repeat(d))],
        "not-run" => vec![format!("10 PRINT {}1", "NOT ".repeat(d))],
        "then-colon-run" => vec![format!("10 IF 0 THEN {}PRINT 1", ": ".repeat(d))],
        "print-sep-run" => vec![format!("10 PRINT {}1", "; , ".repeat(d))],
        // 31 functions, each wrapping a call of the previous one in min(d, 95) parentheses:
        // every single line stays below any per-line nesting cap and the chain below the
        // frame cap; only their product is deep
        "def-chain" | "def-chain-args" => {
            let p = d.min(95);
            let mut v = vec!["1 DEF Q0(C) = C + 1".to_string()];
            for k in 1..31 {
                if kind == "def-chain" {
                    v.push(format!("{} DEF Q{}(C) = {}Q{}(C){}", k + 1, k, "(".repeat(p), k - 1, ")".repeat(p)));
                } else {
                    v.push(format!("{} DEF Q{}(C) = Q{}({}C{})", k + 1, k, k - 1, "(".repeat(p), ")".repeat(p)));
                }
            }
            v.push("100 PRINT Q30(1)".to_string());
            v
        }
        "neg-paren" => vec![format!("10 PRINT {}1{}", "-(".repeat(d), ")".repeat(d))],
        "for-bound" => vec![format!("10 FOR C = 1 TO {}1{} : NEXT C", "INT(".repeat(d), ")".repeat(d))],
        _ => vec![format!("10 DIM V({}1{})", "(".repeat(d), ")".repeat(d))],
    }
}

/// Runs in the child: returns the exit code (0 = every call returned).
pub fn child_nest(kind: &str, depth: usize, target: &str) -> i32 {
    install_quiet_panic_hook();
    let lines = nest_text(kind, depth);
    if target == "analyze" {
        let text = lines.join("\n");
        match super::c05::check_document(&text) {
            Ok(_) => 0,
            Err((k, d)) => {
                println!("FAIL {} {}", k, &d[d.len().saturating_sub(200)..]);
                10
            }
        }
    } else {
        let mut s = Sess::new();
        for l in &lines {
            match s.line(l) {
                Ok(_) => {}
                Err(Crash(p)) => {
                    println!("FAIL panic {}", p);
                    return 10;
                }
            }
        }
        let mut out = vec![];
        let mut budget = 10_000u64;
        match s.line_and_run("RUN", &mut budget, &mut out) {
            Ok(stop) => {
                println!("OK {:?}", match stop {
                    RunStop::Error(e) => format!("error {:?}", e.kind),
                    other => format!("{:?}", other),
                });
                // still usable
                let mut o2 = vec![];
                let mut b2 = 10u64;
                if s.state().map(|st| st != St::Idle).unwrap_or(true) {
                    let _ = s.brk();
                }
                match s.line_and_run("PRINT 7", &mut b2, &mut o2) {
                    Ok(RunStop::Idle) if printed(&o2) == "7\n" => 0,
                    other => {
                        println!("FAIL liveness {:?}", other.map(|_| ()).map_err(|c| c.0));
                        10
                    }
                }
            }
            Err(Crash(p)) => {
                println!("FAIL panic {}", p);
                10
            }
        }
    }
}

pub fn check_nest(c: &NestCase, rec: &mut CaseRec) -> Verdict {
    let exe = match std::env::current_exe() {
        Ok(e) => e,
        Err(e) => return Verdict::fail("harness:no-exe", e.to_string()),
    };
    // The child runs on a 1 MiB main-thread stack (the default stack of the WASM build; in
    // the optimised harness build this also leaves the ~5-8x headroom that debug builds
    // need on the CLI's 8 MiB main thread).
    let out = std::process::Command::new("sh")
        .arg("-c")
        .arg(format!("ulimit -s {}; exec \"$0\" --child nest \"$1\" \"$2\" \"$3\"", CHILD_STACK_KIB))
        .arg(exe)
        .args([&c.kind, &c.depth.to_string(), &c.target])
        .env("RUST_BACKTRACE", "0")
        .output();
    let out = match out {
        Ok(o) => o,
        Err(e) => return Verdict::fail("harness:spawn", e.to_string()),
    };
    use std::os::unix::process::ExitStatusExt;
    if let Some(sig) = out.status.signal() {
        return Verdict::fail(
            "native-stack-exhausted",
            format!("{} nested {} levels deep ({}): child killed by signal {}", c.kind, c.depth, c.target, sig),
        );
    }
    match out.status.code() {
        Some(0) => {
            rec.class(if c.target == "analyze" { "nest-analyze" } else { "nest-interp" });
            rec.nontrivial_if(c.depth >= 100, hash_of(&(c.kind.clone(), c.depth, c.target.clone())));
            Verdict::Pass
        }
        Some(134) => Verdict::fail("native-stack-exhausted", format!("{} nested {} deep ({}): child aborted", c.kind, c.depth, c.target)),
        other => Verdict::fail(
            "nest-child-failed",
            format!("{} nested {} deep ({}): exit {:?}: {}", c.kind, c.depth, c.target, other, String::from_utf8_lossy(&out.stdout)),
        ),
    }
}

pub const DEPTHS_QUICK: &[u32] = &[10, 50, 99, 100, 101, 1000, 5000, 30000];
pub const DEPTHS_THOROUGH: &[u32] = &[10, 50, 98, 99, 100, 101, 102, 200, 300, 500, 1000, 2000, 5000, 10000, 30000, 100000, 300000];

pub fn property() -> Property {
    let families: Vec<Box<dyn Family>> = vec![
        enum_family(
            "boundary-lines",
            true,
            |_| (BOUNDARY_LINES.len() * 3) as u64,
            |_, i| {
                let l = BOUNDARY_LINES[(i as usize) % BOUNDARY_LINES.len()].to_string();
                let intents = match i as usize / BOUNDARY_LINES.len() {
                    0 => vec![Intent::Line(l), Intent::Continue(50)],
                    1 => vec![Intent::Line(l), Intent::Line("RUN".into()), Intent::Continue(200), Intent::Reply("1".into()), Intent::Continue(50)],
                    _ => vec![Intent::Line("10 PRINT 1".into()), Intent::Line(l), Intent::Line("RUN".into()), Intent::Continue(20), Intent::Break, Intent::Line("CONT".into()), Intent::Continue(20)],
                };
                Session { intents, verify_listing: true }
            },
            check_session,
        ),
        enum_family(
            "seeds",
            true,
            |_| SEEDS.len() as u64,
            |_, i| Session {
                intents: vec![Intent::Seed(SEEDS[i as usize]), Intent::Line("PRINT RND(0)".into()), Intent::Line("PRINT RND(1)".into()), Intent::Line("PRINT RND(1)".into())],
                verify_listing: false,
            },
            check_session,
        ),
        enum_family(
            "deep-nesting",
            true,
            |tier| {
                let d = if tier == Tier::Quick { DEPTHS_QUICK.len() } else { DEPTHS_THOROUGH.len() };
                (NEST_KINDS.len() * d * 2) as u64
            },
            |tier, i| {
                let depths = if tier == Tier::Quick { DEPTHS_QUICK } else { DEPTHS_THOROUGH };
                let i = i as usize;
                NestCase {
                    kind: NEST_KINDS[i % NEST_KINDS.len()].to_string(),
                    depth: depths[(i / NEST_KINDS.len()) % depths.len()],
                    target: if i / NEST_KINDS.len() / depths.len() == 0 { "interp".into() } else { "analyze".into() },
                }
            },
            check_nest,
        ),
        prop_family("structured-sessions", 80_000, 1_000_000, |_| structured_session(), check_session),
        prop_family("hostile-sessions", 150_000, 2_000_000, |_| hostile_session(), check_session),
        prop_family("raw-sessions", 80_000, 1_000_000, |_| raw_session(), check_session),
    ];
    Property {
        id: "C01",
        rule: "Sessions of host intents (submit line / continue n turns / reply / break / seed) mapped onto protocol-respecting host calls. structured-sessions: a grammar-generated program (INPUT/STOP allowed) typed in shuffled order, then a script of RUN / CONT / LIST / NEW / TRACE / NOTRACE / STATS / INTERNALS, immediate statements, line edits and deletions, breaks, good and bad replies, boundary seeds. hostile-sessions: boundary lines (line 18446744073709551615, subscripts 2^32-1 / 2^63-1 / 1e19, 19-40 subscripts, huge GOTO targets, extreme FOR bounds, keyword soup, statements truncated at every token, recursive DEF), spliced/truncated variants, atom soup, long lines, moderate nesting. raw-sessions: arbitrary Unicode lines and replies incl. NUL, CR, LF, form feed. boundary-lines / seeds: every boundary line in three fixed scripts, every boundary seed (exhaustive). deep-nesting: 12 nesting constructs (incl. chains of 31 DEFs each nesting a call of the previous one) x depths up to 30000 (quick) / 300000 (thorough) x {interpreter, analyzer}, each in a child process on a 1 MiB main-thread stack (ulimit -s 1024), judged by exit status. Oracle: no call panics or kills the process; after every Err the state is Idle; an error raised while the cursor stood on program line n names a line, namely n, the line after n, a DEF line, or - for a DATA item of the wrong kind - a DATA line; an error that points into the statement line just typed renders that line; the error renders as nothing or exactly a source line plus a blanks-then-carets line within (one past) that line, and for numbered lines the source line equals the LIST text; break yields Idle + a BREAK record; a reply yields Running; finally PRINT 7 prints exactly 7. Non-trivial: an error followed by a successful call, or break+CONT, a reply, NEW, or an edit after RUN; distinct by call-kind/outcome sequence.",
        assumptions: vec![
            "native-stack exhaustion is decided for the harness build profile (opt-level 2, overflow checks on) on a 1 MiB main-thread stack: the WASM build's default stack, and in this build roughly equivalent to a debug build on the CLI's 8 MiB main thread",
            "in-process workers run on 256 MiB stacks so that only the child-process battery judges stack exhaustion",
        ],
        fuzz: Some(FuzzSpec { target: "c01_session", runs: 150_000, max_len: 2048, verdict: crate::fuzz::c01_verdict }),
        families,
        prelude: None,
        epilogue: None,
    }
}
