//! C05 — static analysis terminates on every file and yields well-formed diagnostics.

use crate::core::*;
use crate::textgen::*;
use abasic_core::{DiagnosticMessage, SourceFileAnalyzer};
use proptest::prelude::*;
use serde::{Deserialize, Serialize};

#[derive(Serialize, Deserialize, Debug, Clone)]
pub struct DocCase {
    pub text: String,
}

pub struct DocStats {
    pub numbered_lines: usize,
    pub located_diagnostics: usize,
    pub diagnostics: usize,
    pub duplicate_numbers: bool,
    pub multibyte_outside_string: bool,
}

/// The C05 oracle; shared with the fuzz target and with C20.
pub fn check_document(text: &str) -> Result<DocStats, (String, String)> {
    let lines: Vec<&str> = text.split('\n').collect();
    let analyzer = catch(|| SourceFileAnalyzer::analyze(text.to_string())).map_err(|p| {
        let key = if p.contains("Expected error to have a numbered program line") || p.contains("unwrap") { "panic-unmappable-location" } else if p.contains("overflow") { "panic-overflow" } else { "panic" };
        (key.to_string(), format!("analyze({:?}) panicked: {}", text, p))
    })?;
    if analyzer.token_types().len() != lines.len() {
        return Err(("token-list-count".into(), format!("{} token lists for {} file lines; text {:?}", analyzer.token_types().len(), lines.len(), text)));
    }
    for (li, toks) in analyzer.token_types().iter().enumerate() {
        let line = lines[li];
        let mut prev_end = 0usize;
        for (ti, (_, r)) in toks.iter().enumerate() {
            let ctx = || format!("file line {} {:?} token #{} range {:?}", li, line, ti, r);
            if !(r.start <= r.end && r.end <= line.len()) {
                return Err(("token-range-out-of-bounds".into(), ctx()));
            }
            if !line.is_char_boundary(r.start) || !line.is_char_boundary(r.end) {
                return Err(("token-range-splits-char".into(), ctx()));
            }
            if r.start < prev_end {
                return Err(("token-ranges-overlap".into(), ctx()));
            }
            prev_end = r.end;
        }
    }
    let mut located = 0;
    let map = analyzer.source_file_map();
    for (mi, msg) in analyzer.messages().iter().enumerate() {
        let (named_line, has_loc, is_err) = match msg {
            DiagnosticMessage::Warning(l, loc, _) => (*l, loc.is_some(), false),
            DiagnosticMessage::Error(l, e) => (*l, e.location.is_some(), true),
        };
        let ctx = |what: &str| format!("message #{} {:?}: {}; text {:?}", mi, msg_text(msg), what, text);
        if named_line >= lines.len() {
            return Err(("message-names-missing-line".into(), ctx("names a file line that does not exist")));
        }
        let mapped = catch(|| map.map_to_source(msg)).map_err(|p| ("panic-mapping".to_string(), ctx(&format!("map_to_source panicked: {}", p))))?;
        let Some((l, r)) = mapped else {
            return Err(("message-unmappable".into(), ctx("map_to_source returned None")));
        };
        if l != named_line {
            return Err(("message-on-wrong-line".into(), ctx(&format!("maps to file line {} but names {}", l, named_line))));
        }
        let line = lines[l];
        if !(r.start <= r.end && r.end <= line.len()) {
            return Err(("message-range-out-of-bounds".into(), ctx(&format!("range {:?} on line {:?} of length {}", r, line, line.len()))));
        }
        if !line.is_char_boundary(r.start) || !line.is_char_boundary(r.end) {
            return Err(("message-range-splits-char".into(), ctx(&format!("range {:?} on line {:?}", r, line))));
        }
        if has_loc || is_err {
            located += 1;
        }
    }
    let mut nums = std::collections::HashSet::new();
    let mut dup = false;
    let mut numbered = 0;
    for l in &lines {
        if let Some((n, _)) = abasic_core::verif_hooks::parse_line_number(l) {
            numbered += 1;
            if !nums.insert(n) {
                dup = true;
            }
        }
    }
    let mb = lines.iter().any(|l| {
        let mut in_str = false;
        l.chars().any(|c| {
            if c == '"' {
                in_str = !in_str;
            }
            !c.is_ascii() && !in_str
        })
    });
    Ok(DocStats { numbered_lines: numbered, located_diagnostics: located, diagnostics: analyzer.messages().len(), duplicate_numbers: dup, multibyte_outside_string: mb })
}

fn msg_text(m: &DiagnosticMessage) -> String {
    match m {
        DiagnosticMessage::Warning(l, _, t) => format!("Warning(line {}, {})", l, t),
        DiagnosticMessage::Error(l, e) => format!("Error(line {}, {})", l, e),
    }
}

fn check(c: &DocCase, rec: &mut CaseRec) -> Verdict {
    match check_document(&c.text) {
        Ok(st) => {
            if st.duplicate_numbers {
                rec.class("duplicate-line-number");
            }
            if st.multibyte_outside_string {
                rec.class("multi-byte-outside-string");
            }
            if c.text.contains('\r') {
                rec.class("crlf");
            }
            if st.diagnostics > 0 {
                rec.class("has-diagnostics");
            }
            rec.nontrivial_if(st.numbered_lines >= 2 && st.located_diagnostics >= 1, hash_str(&c.text));
            Verdict::Pass
        }
        Err((k, d)) => Verdict::fail(k, d),
    }
}

pub fn property() -> Property {
    let families: Vec<Box<dyn Family>> = vec![
        // deeply nested / very long constructs, analyzed in child processes on a 1 MiB stack
        enum_family(
            "deep-nesting",
            true,
            |tier| {
                let d = if tier == Tier::Quick { super::c01::DEPTHS_QUICK.len() } else { super::c01::DEPTHS_THOROUGH.len() };
                (super::c01::NEST_KINDS.len() * d) as u64
            },
            |tier, i| {
                let depths = if tier == Tier::Quick { super::c01::DEPTHS_QUICK } else { super::c01::DEPTHS_THOROUGH };
                let i = i as usize;
                super::c01::NestCase { kind: super::c01::NEST_KINDS[i % super::c01::NEST_KINDS.len()].to_string(), depth: depths[(i / super::c01::NEST_KINDS.len()) % depths.len()], target: "analyze".into() }
            },
            super::c01::check_nest,
        ),
        enum_family(
            "repo-programs",
            true,
            |_| 2,
            |_, i| DocCase { text: std::fs::read_to_string(["/repo/programs/chemist.bas", "/repo/programs/hamurabi.bas"][i as usize]).unwrap_or_default() },
            check,
        ),
        prop_family("documents", 150_000, 2_000_000, |_| document().prop_map(|text| DocCase { text }), check),
        prop_family("mutated-repo-programs", 10_000, 100_000, |_| mutated_repo_program().prop_map(|text| DocCase { text }), check),
        prop_family(
            "atom-documents",
            150_000,
            1_000_000,
            |_| prop::collection::vec((0u8..40, atom_line(10)), 0..8).prop_map(|v| DocCase { text: v.into_iter().map(|(n, l)| format!("{} {}", n % 6 * 10, l)).collect::<Vec<_>>().join("\n") }),
            check,
        ),
        prop_family("raw-text", 30_000, 1_000_000, |_| prop_oneof![any::<String>(), "\\PC{0,80}", "([0-9]{1,3} [ -~]{0,20}\n){0,6}", "\u{feff}?([ \t\u{a0}]?[0-9]{1,3} ?[ -~é€😊]{0,16}\r?\n){0,5}"].prop_map(|text| DocCase { text }), check),
    ];
    Property {
        id: "C05",
        rule: "File texts: grammar-generated programs (INPUT/STOP allowed) rendered with random spacing/case and mutated at document level (blank / unnumbered / bare-number lines, duplicates of an earlier number that are identical / different / untokenizable / multi-byte / truncated, untokenizable tails, u64-boundary line numbers, garbage lines, non-ASCII tails, truncation, swaps, line prefixes such as a byte order mark / indentation / no-break, zero-width and ideographic spaces - half of them on the first file line, CRLF variants); character-level mutations of the repo's sample programs; documents of random atom lines over few colliding numbers; raw Unicode and printable text. deep-nesting: 16 nesting / token-run constructs x depths to 30000 (quick) / 300000 (thorough) analyzed in child processes on a 1 MiB stack, judged by exit status. Oracle: analyze returns; one token list per file line; every message maps to Some((line, range)) with line == the line it names, range inside the line and on char boundaries; per-line token ranges ordered, disjoint, in bounds, on char boundaries. Non-trivial: >= 2 numbered lines and >= 1 diagnostic carrying a program location; distinct by text.",
        assumptions: vec!["native-stack exhaustion is decided by the child-process family (1 MiB stack, optimised harness build), not in-process"],
        fuzz: Some(FuzzSpec { target: "c05_analyze", runs: 400_000, max_len: 2048, verdict: crate::fuzz::c05_verdict }),
        families,
        prelude: None,
        epilogue: None,
    }
}
