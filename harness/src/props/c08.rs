//! C08 — INPUT suspends and resumes without disturbing the rest of the program.

use crate::ast::*;
use crate::core::*;
use crate::gen::{self, GenCfg, NUM_VARS, STR_VARS};
use crate::model::{Event, Model, Status, V};
use crate::run::*;
use crate::sess::*;
use proptest::prelude::*;
use serde::{Deserialize, Serialize};

pub const BUDGET: u64 = 1500;

#[derive(Serialize, Deserialize, Debug, Clone)]
pub struct InputCase {
    pub prog: Program,
    pub style: Style,
    pub seed: u64,
    pub replies: Vec<String>,
    /// An INPUT exchange abandoned (or completed) at the prompt before RUN:
    /// 0 none; 1 `INPUT Q` then break; 2 `INPUT Q`, a rejected reply, then
    /// break; 3 `INPUT Q$` answered; 4 the program itself run to its first
    /// input request and broken off there.
    #[serde(default)]
    pub prelude: u8,
}

/// Replies inside the documented reply grammar (no empty interior items, no
/// leading comma or colon; numerals in canonical spelling).
const REPLY_POOL: &[&str] = &[
    "1", "0", "-5", "2.5", "42", "abc", "hello world", "x1", "", "\"quoted\"", "\"a,b\"", "\"c:d\"", "\"12\"", "1,2", "abc,def", "7:8", "x:y", " 3 ",
    "  pad  ", "\"sp\" ", "1, 2, 3", "\"a\",\"b\"", "5 , 6", "é", "12abc", "\" lead\"",
];

pub fn replies() -> impl Strategy<Value = Vec<String>> {
    prop::collection::vec((0..REPLY_POOL.len()).prop_map(|i| REPLY_POOL[i].to_string()), 0..14)
}

fn case() -> impl Strategy<Value = InputCase> {
    let cfg = GenCfg { max_blocks: 10, allow_stop: false, ..GenCfg::C03.with_input() };
    (gen::program(cfg), gen::style(), prop_oneof![Just(0u64), any::<u64>()], replies(), prop_oneof![3 => Just(0u8), 2 => 1u8..5]).prop_map(|(prog, style, seed, replies, prelude)| InputCase { prog, style, seed, replies, prelude })
}

#[derive(Debug, PartialEq, Clone)]
enum Ev {
    Print(String),
    Reenter,
    Extra,
}

fn model_events(m: &Model, from: usize) -> Vec<Ev> {
    m.events[from..]
        .iter()
        .filter_map(|e| match e {
            Event::Print(p) => Some(Ev::Print(p.clone())),
            Event::Reenter => Some(Ev::Reenter),
            Event::ExtraIgnored => Some(Ev::Extra),
            _ => None,
        })
        .collect()
}

fn impl_events(out: &[Out]) -> Vec<Ev> {
    out.iter()
        .filter_map(|o| match o {
            Out::Print(p) => Some(Ev::Print(p.clone())),
            Out::Reenter => Some(Ev::Reenter),
            Out::ExtraIgnored => Some(Ev::Extra),
            _ => None,
        })
        .collect()
}

fn input_position_class(p: &Program) -> (bool, bool) {
    // (an INPUT that is not the first statement of its line or is nested in IF, an INPUT with a cell target)
    let mut nested_or_later = false;
    let mut cell = false;
    for l in &p.lines {
        for (i, s) in l.stmts.iter().enumerate() {
            s.walk(&mut |st| {
                if let Stmt::Input(t) = st {
                    if i > 0 || !std::ptr::eq(st, s) {
                        nested_or_later = true;
                    }
                    if matches!(t, LValue::Cell(..)) {
                        cell = true;
                    }
                }
            });
        }
    }
    (nested_or_later, cell)
}

fn check(c: &InputCase, rec: &mut CaseRec) -> Verdict {
    let lines = render_program(&c.prog, c.style);
    let mut m = Model::new(&c.prog, c.seed);
    let mut sess = Sess::new();
    sess.randomize(c.seed);
    match sess.enter_program(&lines) {
        Err(Crash(p)) => return Verdict::fail("panic", p),
        Ok(Err(e)) => return Verdict::fail("valid-line-rejected", format!("{:?} in {:?}", e, lines)),
        Ok(Ok(())) => {}
    }
    let show = |why: String| format!("{}; program {:?} replies {:?} prelude {}", why, lines, c.replies, c.prelude);
    let mut mb = BUDGET;
    let mut ib = 4 * BUDGET + 100;
    let mut out: Vec<Out> = vec![];
    // "Whenever a program reaches INPUT" includes: after an earlier exchange was abandoned.
    if c.prelude != 0 {
        let pre = (|| -> Result<(), Crash> {
            let mut scratch = vec![];
            let mut b = 200u64;
            match c.prelude {
                1 | 2 => {
                    sess.line_and_run("INPUT Q", &mut b, &mut scratch)?;
                    if c.prelude == 2 && sess.state()? == St::AwaitingInput {
                        sess.reply("abc")?;
                        sess.run_on(&mut b, &mut scratch)?;
                    }
                }
                3 => {
                    sess.line_and_run("INPUT Q$", &mut b, &mut scratch)?;
                    if sess.state()? == St::AwaitingInput {
                        sess.reply("x")?;
                        sess.run_on(&mut b, &mut scratch)?;
                    }
                }
                _ => {
                    sess.line_and_run("RUN", &mut b, &mut scratch)?;
                }
            }
            if sess.state()? != St::Idle {
                sess.brk()?;
            }
            // the RUN below must start from the same random-number state as the model
            sess.randomize(c.seed);
            Ok(())
        })();
        if let Err(Crash(p)) = pre {
            return Verdict::fail("panic", show(p));
        }
        rec.class("after-abandoned-exchange");
    }
    let mut stop = match sess.line_and_run("RUN", &mut ib, &mut out) {
        Ok(s) => s,
        Err(Crash(p)) => return Verdict::fail("panic", show(p)),
    };
    m.run(&mut mb);
    let mut mfrom = 0usize;
    let mut next_reply = 0usize;
    let (mut reenters, mut extras, mut requests) = (0u32, 0u32, 0u32);
    loop {
        // compare everything produced since the last synchronisation point
        let me = model_events(&m, mfrom);
        mfrom = m.events.len();
        let ie = impl_events(&out);
        out.clear();
        if m.status == Status::Running {
            // model budget exhausted: compare prefixes only
            rec.class("budget");
            let n = me.len().min(ie.len());
            if me[..n] != ie[..n] {
                return Verdict::fail("events-differ", show(format!("prefix: model {:?} impl {:?}", &me[..n], &ie[..n])));
            }
            break;
        }
        if me != ie {
            let key = if me.iter().filter(|e| **e == Ev::Extra).count() != ie.iter().filter(|e| **e == Ev::Extra).count() {
                "extra-ignored-differs"
            } else if me.iter().filter(|e| **e == Ev::Reenter).count() != ie.iter().filter(|e| **e == Ev::Reenter).count() {
                "reenter-differs"
            } else {
                "events-differ"
            };
            return Verdict::fail(key, show(format!("since the last input request: model {:?} impl {:?}", me, ie)));
        }
        reenters += me.iter().filter(|e| **e == Ev::Reenter).count() as u32;
        extras += me.iter().filter(|e| **e == Ev::Extra).count() as u32;
        match (&m.status, &stop) {
            (Status::AwaitingInput, RunStop::Input) => {
                requests += 1;
                if requests > 60 {
                    break;
                }
                let text = c.replies.get(next_reply).cloned().unwrap_or_else(|| if next_reply % 2 == 0 { "0".to_string() } else { "w".to_string() });
                next_reply += 1;
                m.reply(&text);
                m.run(&mut mb);
                match sess.reply(&text) {
                    Err(Crash(p)) => return Verdict::fail("panic", show(p)),
                    Ok(r) => {
                        if r.state != St::Running {
                            return Verdict::fail("reply-does-not-run", show(format!("state {:?} after reply", r.state)));
                        }
                    }
                }
                stop = match sess.run_on(&mut ib, &mut out) {
                    Ok(s) => s,
                    Err(Crash(p)) => return Verdict::fail("panic", show(p)),
                };
            }
            (Status::Done, RunStop::Idle) => {
                if m.outcome().is_some() {
                    return Verdict::fail("outcome-differs", show(format!("model {:?}, impl finished", m.outcome())));
                }
                break;
            }
            (Status::Done, RunStop::Error(e)) => {
                let runaway = m.runaway_function_recursion && e.kind == ErrKind::StackOverflow && matches!(m.outcome(), Some((ErrKind::StackOverflow, _)));
                if m.outcome() != Some((e.kind, e.line)) && !runaway {
                    return Verdict::fail("outcome-differs", show(format!("model {:?}, impl {:?} {:?}", m.outcome(), e.kind, e.line)));
                }
                break;
            }
            (ms, is) => {
                let key = match (ms, is) {
                    (Status::AwaitingInput, _) => "impl-does-not-await-input",
                    (_, RunStop::Input) => "impl-awaits-input-unexpectedly",
                    _ => "status-differs",
                };
                return Verdict::fail(key, show(format!("model status {:?}, impl {:?}", ms, is)));
            }
        }
    }
    // final variable probes (scalars)
    if m.status == Status::Done && sess.state().map(|s| s == St::Idle).unwrap_or(false) {
        for name in NUM_VARS.iter().chain(STR_VARS.iter()) {
            let want = match m.vars.get(*name) {
                Some(v) => v.show(),
                None => {
                    if name.ends_with('$') {
                        String::new()
                    } else {
                        "0".to_string()
                    }
                }
            };
            let mut o = vec![];
            let mut b = 20u64;
            match sess.line_and_run(&format!("PRINT {}", name), &mut b, &mut o) {
                Ok(RunStop::Idle) => {
                    let got = printed(&o);
                    if got != format!("{}\n", want) {
                        return Verdict::fail("final-variable-differs", show(format!("{} is {:?}, model says {:?}", name, got, want)));
                    }
                }
                other => return Verdict::fail("probe-failed", show(format!("PRINT {} -> {:?}", name, other.map_err(|c| c.0)))),
            }
        }
    }
    let (nested, cell) = input_position_class(&c.prog);
    if nested {
        rec.class("input-not-first-or-nested");
    }
    if cell {
        rec.class("input-into-cell");
    }
    if reenters > 0 {
        rec.class("reenter");
    }
    if extras > 0 {
        rec.class("extra-ignored");
    }
    if requests > 0 {
        rec.class("input-reached");
    }
    rec.nontrivial_if(requests > 0 && nested && (reenters > 0 || extras > 0), hash_str(&format!("{:?}{:?}", lines, c.replies)));
    Verdict::Pass
}

// ------------------------------------------------------------------ metamorphic: INPUT v == v = literal

fn value_literal(v: &V) -> Option<Expr> {
    match v {
        V::N(n) if n.is_finite() => Some(if *n < 0.0 || (*n == 0.0 && n.is_sign_negative()) { Expr::un(UnOp::Neg, Expr::Num(-*n)) } else { Expr::Num(*n) }),
        V::S(s) if !s.contains('"') && !s.contains('\n') => Some(Expr::Str(s.clone())),
        _ => None,
    }
}

/// Replaces the k-th INPUT statement (pre-order over the program) using `f`.
fn replace_inputs(p: &Program, f: &mut dyn FnMut(usize, &LValue) -> Option<Stmt>) -> Program {
    fn go(s: &mut Stmt, k: &mut usize, f: &mut dyn FnMut(usize, &LValue) -> Option<Stmt>) {
        match s {
            Stmt::Input(t) => {
                let t2 = t.clone();
                if let Some(n) = f(*k, &t2) {
                    *s = n;
                }
                *k += 1;
            }
            Stmt::If { then, els, .. } => {
                if let Branch::Stmt(t) = then {
                    go(t, k, f);
                }
                if let Some(Branch::Stmt(e)) = els {
                    go(e, k, f);
                }
            }
            _ => {}
        }
    }
    let mut p = p.clone();
    let mut k = 0;
    for l in p.lines.iter_mut() {
        for s in l.stmts.iter_mut() {
            go(s, &mut k, f);
        }
    }
    p
}

fn check_meta(c: &InputCase, rec: &mut CaseRec) -> Verdict {
    // Instrument: run the real interpreter once, recording for each INPUT site
    // (identified by numbering the sites and tagging each with a unique PRINT
    // marker is not possible without changing the program), so instead use the
    // model only to find which value each site finally accepted and how often
    // it ran; the comparison itself is implementation against implementation.
    let mut m = Model::new(&c.prog, c.seed);
    let mut mb = BUDGET;
    let mut next_reply = 0usize;
    // site index by statement address
    let mut sites: Vec<*const Stmt> = vec![];
    c.prog.walk_stmts(&mut |_, s| {
        if matches!(s, Stmt::Input(_)) {
            sites.push(s as *const Stmt);
        }
    });
    if sites.is_empty() {
        rec.excluded = 1;
        return Verdict::Pass;
    }
    let mut accepted: Vec<Vec<V>> = vec![vec![]; sites.len()];
    let mut used_replies: Vec<String> = vec![];
    m.run(&mut mb);
    let mut guard = 0;
    while m.status == Status::AwaitingInput && guard < 80 {
        guard += 1;
        let text = c.replies.get(next_reply).cloned().unwrap_or_else(|| "0".to_string());
        next_reply += 1;
        used_replies.push(text.clone());
        let site = m.pending_input_stmt().map(|s| s as *const Stmt);
        let target = m.pending_input_stmt().and_then(|s| if let Stmt::Input(t) = s { Some(t.clone()) } else { None });
        let before = m.events.len();
        m.reply(&text);
        let reentered = m.events[before..].iter().any(|e| matches!(e, Event::Reenter));
        if !reentered {
            if let (Some(site), Some(t)) = (site, target) {
                if let Some(i) = sites.iter().position(|s| *s == site) {
                    // the accepted value is what the model stored
                    let (item, _) = crate::model::parse_reply(&text);
                    let v = match (item, t.name().ends_with('$')) {
                        (crate::model::ReplyItem::Num(n), false) => V::N(n),
                        (crate::model::ReplyItem::Num(n), true) => V::S(format!("{}", n)),
                        (crate::model::ReplyItem::Text(s), _) => V::S(s),
                    };
                    accepted[i].push(v);
                }
            }
        }
        m.run(&mut mb);
    }
    if m.status != Status::Done || accepted.iter().any(|a| a.len() > 1) {
        rec.class("skipped:input-site-runs-more-than-once-or-budget");
        rec.excluded = 1;
        return Verdict::Pass;
    }
    let mut literal_ok = true;
    let replaced = replace_inputs(&c.prog, &mut |k, target| {
        let v = accepted[k].first()?;
        match value_literal(v) {
            Some(e) => Some(Stmt::Let { target: target.clone(), value: e, with_let: false }),
            None => {
                literal_ok = false;
                None
            }
        }
    });
    if !literal_ok {
        rec.excluded = 1;
        return Verdict::Pass;
    }
    // identical texts except for the replaced statements (see C07: renderer randomness
    // must not differ between the two variants)
    let plain = Style { redundant_parens: 0, spacing: 0, case: c.style.case.min(1), question_mark: false, salt: 0 };
    let lines_a = render_program(&c.prog, plain);
    let lines_b = render_program(&replaced, plain);
    let ta = match load_and_run(&lines_a, c.seed, &c.replies, 4 * BUDGET, &mut NoHost) {
        Err(Crash(p)) => return Verdict::fail("panic", p),
        Ok(Err(e)) => return Verdict::fail("valid-line-rejected", format!("{:?}", e)),
        Ok(Ok(x)) => x,
    };
    let tb = match load_and_run(&lines_b, c.seed, &[], 4 * BUDGET, &mut NoHost) {
        Err(Crash(p)) => return Verdict::fail("panic", p),
        Ok(Err(e)) => return Verdict::fail("valid-line-rejected", format!("{:?} in {:?}", e, lines_b)),
        Ok(Ok(x)) => x,
    };
    let (mut sa, ta) = ta;
    let (mut sb, tb) = tb;
    if ta.printed() != tb.printed() || ta.end != tb.end {
        return Verdict::fail(
            "input-differs-from-assignment",
            format!("with INPUT (replies {:?}): {:?} / {:?}; with assignments: {:?} / {:?}; programs {:?} vs {:?}", c.replies, ta.printed(), ta.end, tb.printed(), tb.end, lines_a, lines_b),
        );
    }
    for name in NUM_VARS.iter().chain(STR_VARS.iter()) {
        let probe = format!("PRINT {}", name);
        let mut oa = vec![];
        let mut ob = vec![];
        let (mut b1, mut b2) = (20u64, 20u64);
        let ra = sa.line_and_run(&probe, &mut b1, &mut oa);
        let rb = sb.line_and_run(&probe, &mut b2, &mut ob);
        if ra.is_err() || rb.is_err() || oa != ob {
            return Verdict::fail("final-variable-differs", format!("{}: {:?} vs {:?}; programs {:?} vs {:?}", name, oa, ob, lines_a, lines_b));
        }
    }
    let n_inputs: usize = accepted.iter().map(|a| a.len()).sum();
    rec.nontrivial_if(n_inputs > 0 && ta.events.iter().any(|e| matches!(e, TEvent::Reenter | TEvent::ExtraIgnored)), hash_str(&format!("m{:?}{:?}", lines_a, c.replies)));
    Verdict::Pass
}

// ------------------------------------------------------------------ immediate-mode INPUT

#[derive(Serialize, Deserialize, Debug, Clone)]
pub struct ImmCase {
    pub string_target: bool,
    pub cell: bool,
    pub replies: Vec<String>,
}

fn check_imm(c: &ImmCase, rec: &mut CaseRec) -> Verdict {
    let target = match (c.string_target, c.cell) {
        (false, false) => "Q",
        (true, false) => "Q$",
        (false, true) => "VV(3)",
        (true, true) => "VV$(3)",
    };
    let mut s = Sess::new();
    let mut out = vec![];
    let mut b = 50u64;
    let stmt = format!("PRINT \"a\" : INPUT {} : PRINT \"b\"", target);
    let mut stop = match s.line_and_run(&stmt, &mut b, &mut out) {
        Ok(x) => x,
        Err(Crash(p)) => return Verdict::fail("panic", p),
    };
    let mut expect_events = vec![Ev::Print("a\n".into())];
    let mut stored: Option<String> = None;
    for r in c.replies.iter().chain(std::iter::repeat(&"1".to_string())).take(c.replies.len() + 1) {
        if stop != RunStop::Input {
            return Verdict::fail("impl-does-not-await-input", format!("{:?} after {:?}", stop, stmt));
        }
        let (item, extra) = crate::model::parse_reply(r);
        let ok = match (&item, c.string_target) {
            (crate::model::ReplyItem::Text(_), false) => false,
            _ => true,
        };
        if let Err(Crash(p)) = s.reply(r) {
            return Verdict::fail("panic", p);
        }
        stop = match s.run_on(&mut b, &mut out) {
            Ok(x) => x,
            Err(Crash(p)) => return Verdict::fail("panic", p),
        };
        if ok {
            stored = Some(match item {
                crate::model::ReplyItem::Num(n) => format!("{}", n),
                crate::model::ReplyItem::Text(t) => t,
            });
            if extra {
                expect_events.push(Ev::Extra);
            }
            expect_events.push(Ev::Print("b\n".into()));
            break;
        } else {
            expect_events.push(Ev::Reenter);
        }
    }
    if stop != RunStop::Idle {
        return Verdict::fail("immediate-input-not-finished", format!("{:?}", stop));
    }
    let got = impl_events(&out);
    if got != expect_events {
        return Verdict::fail("immediate-input-events", format!("statement {:?} replies {:?}: want {:?} got {:?}", stmt, c.replies, expect_events, got));
    }
    let mut o = vec![];
    let mut b2 = 10u64;
    let _ = s.line_and_run(&format!("PRINT \"[\";{};\"]\"", target), &mut b2, &mut o);
    if printed(&o) != format!("[{}]\n", stored.clone().unwrap_or_default()) {
        return Verdict::fail("immediate-input-value", format!("stored {:?}, PRINT shows {:?}", stored, printed(&o)));
    }
    rec.nontrivial_if(c.replies.len() > 0, hash_of(&(c.string_target, c.cell, c.replies.clone())));
    Verdict::Pass
}

pub fn property() -> Property {
    let families: Vec<Box<dyn Family>> = vec![
        prop_family("model-lockstep", 90_000, 1_500_000, |_| case(), check),
        prop_family("input-vs-assignment", 50_000, 800_000, |_| case(), check_meta),
        prop_family(
            "immediate-input",
            30_000,
            100_000,
            |_| (any::<bool>(), any::<bool>(), replies()).prop_map(|(string_target, cell, mut replies)| {
                replies.truncate(5);
                ImmCase { string_target, cell, replies }
            }),
            check_imm,
        ),
    ];
    Property {
        id: "C08",
        rule: "Programs from the grammar with INPUT statements wherever a simple statement may stand (first / middle / last on a line, THEN with and without ELSE, ELSE, FOR bodies, subroutines; scalar and array-cell targets of both kinds) and reply scripts from the documented reply grammar (valid items, words for numeric targets, empty, quoted with commas/colons, surplus items after comma or colon, padded). model-lockstep: implementation and reference interpreter advance in lockstep; at every input request and at the end the events since the previous synchronisation point (Print text, REENTER, EXTRA IGNORED) must be identical, the implementation must await input exactly when the model does, outcomes (kind, line) and final scalar values must agree. input-vs-assignment (implementation against itself): when every INPUT site ran at most once, replacing each INPUT by an assignment of the accepted item must give identical printed output, outcome and final scalars. immediate-input: INPUT typed at the prompt between two PRINTs. Non-trivial: an INPUT that is not first on its line or is nested in IF was reached and at least one REENTER or EXTRA IGNORED occurred; distinct by program+replies.",
        assumptions: vec![
            "the reply grammar excludes empty interior items and leading separators (unspecified)",
            "subscripts of INPUT targets contain no RND or function call (whether they are re-evaluated on REENTER is unspecified)",
        ],
        fuzz: None,
        families,
        prelude: Some(Box::new(|_, rec| {
            let n = crate::selftest::run()?;
            rec.set_extra("model_selftest_programs", serde_json::json!(n));
            Ok(vec![])
        })),
        epilogue: None,
    }
}
