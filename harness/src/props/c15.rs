//! C15 — loading a file equals typing it in, and CLI options apply in both modes.

use crate::ast::*;
use crate::core::*;
use crate::gen::{self, GenCfg};
use crate::run::*;
use crate::sess::*;
use abasic_core::SourceFileAnalyzer;
use proptest::prelude::*;
use serde::{Deserialize, Serialize};
use std::io::Write;
use std::process::{Command, Stdio};

pub const BUDGET: u64 = 600;

#[derive(Serialize, Deserialize, Debug, Clone)]
pub struct FileCase {
    #[serde(default)]
    pub raw_lines: Option<Vec<String>>,
    pub prog: Program,
    pub style: Style,
    pub seed: u64,
    pub replies: Vec<String>,
    /// order in which the lines appear in the file
    pub order: u64,
    /// duplicate definitions: (which line, replacement statement text) inserted before it
    pub dups: Vec<(u16, u8)>,
    pub crlf: bool,
    pub warnings: bool,
    pub tracing: bool,
}

const DUP_TEXT: &[&str] = &["PRINT \"first definition\"", "REM old", "Q = 99 : GOTO 0", "DATA 1, 2, 3"];

fn file_lines(c: &FileCase) -> Vec<String> {
    let mut lines = c.raw_lines.clone().unwrap_or_else(|| render_program(&c.prog, c.style));
    // earlier definitions of some lines (the later one wins)
    for (at, k) in &c.dups {
        if lines.is_empty() {
            break;
        }
        let i = idx(*at, lines.len());
        let num: String = lines[i].trim_start().chars().take_while(|ch| ch.is_ascii_digit()).collect();
        lines.insert(i, format!("{} {}", num, DUP_TEXT[*k as usize % DUP_TEXT.len()]));
    }
    // any order, but an earlier duplicate has to stay before the final definition of its number
    let n = lines.len();
    let mut idxs: Vec<usize> = (0..n).collect();
    for i in (1..n).rev() {
        let j = (splitmix(c.order ^ i as u64) % (i as u64 + 1)) as usize;
        idxs.swap(i, j);
    }
    let num_of = |l: &str| l.trim_start().chars().take_while(|ch| ch.is_ascii_digit()).collect::<String>();
    let mut shuffled: Vec<String> = idxs.iter().map(|i| lines[*i].clone()).collect();
    // restore relative order among lines with the same number
    let mut by_num: std::collections::HashMap<String, Vec<String>> = std::collections::HashMap::new();
    for l in &lines {
        by_num.entry(num_of(l)).or_default().push(l.clone());
    }
    let mut cursor: std::collections::HashMap<String, usize> = std::collections::HashMap::new();
    for l in shuffled.iter_mut() {
        let k = num_of(l);
        let c = cursor.entry(k.clone()).or_insert(0);
        *l = by_num[&k][*c].clone();
        *c += 1;
    }
    shuffled
}

fn case(rnd: bool) -> impl Strategy<Value = FileCase> {
    let cfg = GenCfg { max_blocks: 8, allow_rnd: rnd, allow_wild: false, allow_stop: false, ..GenCfg::C03.with_input() };
    (
        gen::program(cfg),
        gen::style(),
        any::<u64>(),
        super::c08::replies(),
        any::<u64>(),
        prop::collection::vec((any::<u16>(), 0u8..4), 0..3),
        prop::bool::weighted(0.2),
        any::<bool>(),
        any::<bool>(),
    )
        .prop_map(|(prog, style, seed, replies, order, dups, crlf, warnings, tracing)| FileCase { raw_lines: None, prog, style, seed, replies, order, dups, crlf, warnings, tracing })
}

fn check_inproc(c: &FileCase, rec: &mut CaseRec) -> Verdict {
    let lines = file_lines(c);
    if lines.is_empty() {
        rec.excluded = 1;
        return Verdict::Pass;
    }
    let text = if c.crlf { lines.join("\r\n") } else { lines.join("\n") };
    let show = |why: String| format!("{}; file {:?}", why, text);
    // typed
    let mut typed = Sess::new();
    typed.set_options(c.warnings, c.tracing);
    for l in text.split('\n') {
        match typed.line(l) {
            Err(Crash(p)) => return Verdict::fail("panic", show(p)),
            Ok(r) => {
                if let Some(e) = r.err {
                    return Verdict::fail("valid-line-rejected", show(format!("{:?}: {}", l, e.text)));
                }
            }
        }
    }
    // loaded
    let interp = match catch(|| SourceFileAnalyzer::analyze(text.clone()).into_interpreter()) {
        Ok(i) => i,
        Err(p) => return Verdict::fail("panic-loading", show(p)),
    };
    let mut loaded = Sess::with_interp(interp);
    loaded.set_options(c.warnings, c.tracing);
    let (lt, ll) = match (typed.list(), loaded.list()) {
        (Ok(a), Ok(b)) => (a, b),
        _ => return Verdict::fail("panic", show("LIST".into())),
    };
    if lt != ll {
        let d = lt.iter().zip(&ll).find(|(a, b)| a != b).map(|(a, b)| format!("{:?} vs {:?}", a, b)).unwrap_or_else(|| format!("{} vs {} lines", lt.len(), ll.len()));
        return Verdict::fail("list-differs", show(format!("typed vs loaded: {}", d)));
    }
    typed.randomize(c.seed);
    loaded.randomize(c.seed);
    let ta = match drive(&mut typed, "RUN", &c.replies, BUDGET, &mut NoHost) {
        Ok(t) => t,
        Err(Crash(p)) => return Verdict::fail("panic", show(p)),
    };
    let tb = match drive(&mut loaded, "RUN", &c.replies, BUDGET, &mut NoHost) {
        Ok(t) => t,
        Err(Crash(p)) => return Verdict::fail("panic-loaded", show(p)),
    };
    if ta.events != tb.events || ta.end != tb.end {
        let n = ta.events.len().min(tb.events.len());
        let i = (0..n).find(|i| ta.events[*i] != tb.events[*i]);
        return Verdict::fail("run-differs", show(format!("typed vs loaded: first difference {:?}: {:?} vs {:?}; ends {:?} vs {:?}", i, i.map(|i| &ta.events[i]).or(ta.events.get(n)), i.map(|i| &tb.events[i]).or(tb.events.get(n)), ta.end, tb.end)));
    }
    if !c.dups.is_empty() {
        rec.class("duplicate-definitions");
    }
    if c.crlf {
        rec.class("crlf");
    }
    let warned = ta.events.iter().any(|e| matches!(e, TEvent::Warning(..)));
    let traced = ta.events.iter().any(|e| matches!(e, TEvent::Trace(_)));
    rec.nontrivial_if(lines.len() >= 3 && !ta.printed().is_empty() && (warned || traced), hash_str(&format!("{}{}{}", text, c.warnings, c.tracing)));
    Verdict::Pass
}

// ------------------------------------------------------------------ process level

#[derive(Serialize, Deserialize, Debug, Clone)]
pub struct CliCase {
    pub file: FileCase,
    /// bit 0: --warnings, bit 1: --tracing, bit 2: --skip-check
    pub opts: u8,
}

struct Ran {
    stdout: String,
    stderr: String,
    code: Option<i32>,
}

static CHILD_SEQ: std::sync::atomic::AtomicU64 = std::sync::atomic::AtomicU64::new(0);

fn run_cli(args: &[String], stdin_text: &str, workdir: &std::path::Path) -> Result<Ran, String> {
    let bin = std::env::var("ABV_REPO_BIN_DIR").map_err(|_| "ABV_REPO_BIN_DIR not set".to_string())?;
    let home = workdir.join("home");
    std::fs::create_dir_all(&home).map_err(|e| e.to_string())?;
    let mut child = Command::new(format!("{}/abasic", bin))
        .args(args)
        .current_dir(workdir)
        .env("HOME", &home)
        .env("NO_COLOR", "1")
        .env("RUST_BACKTRACE", "0")
        .stdin(Stdio::piped())
        .stdout(Stdio::piped())
        .stderr(Stdio::piped())
        .spawn()
        .map_err(|e| format!("spawn: {}", e))?;
    {
        let mut si = child.stdin.take().unwrap();
        let _ = si.write_all(stdin_text.as_bytes());
    }
    // generous wall-clock limit: reaching it is reported as inconclusive, never as a violation
    let start = std::time::Instant::now();
    loop {
        match child.try_wait() {
            Ok(Some(_)) => break,
            Ok(None) => {
                if start.elapsed().as_secs() > 60 {
                    let _ = child.kill();
                    return Err("\u{1}timeout".into());
                }
                std::thread::sleep(std::time::Duration::from_millis(2));
            }
            Err(e) => return Err(e.to_string()),
        }
    }
    let out = child.wait_with_output().map_err(|e| e.to_string())?;
    Ok(Ran { stdout: String::from_utf8_lossy(&out.stdout).to_string(), stderr: String::from_utf8_lossy(&out.stderr).to_string(), code: out.status.code() })
}

fn check_cli(c: &CliCase, rec: &mut CaseRec) -> Verdict {
    let lines = file_lines(&c.file);
    if lines.is_empty() {
        rec.excluded = 1;
        return Verdict::Pass;
    }
    let text = format!("{}\n", lines.join("\n"));
    let (w, t, skip) = (c.opts & 1 != 0, c.opts & 2 != 0, c.opts & 4 != 0);
    // dry run in-process: the program must finish, and we need to know how many replies it consumes
    let mut dry = Sess::new();
    for l in &lines {
        if dry.line(l).map(|r| r.err.is_some()).unwrap_or(true) {
            return Verdict::fail("valid-line-rejected", format!("{:?}", l));
        }
    }
    let tr = match drive(&mut dry, "RUN", &c.file.replies, BUDGET, &mut NoHost) {
        Ok(t) => t,
        Err(Crash(p)) => return Verdict::fail("panic", p),
    };
    if tr.end == End::Budget {
        rec.excluded = 1;
        return Verdict::Pass;
    }
    let analyzer_errors = SourceFileAnalyzer::analyze(text.trim_end_matches('\n').to_string()).messages().iter().any(|m| matches!(m, abasic_core::DiagnosticMessage::Error(..)));
    if analyzer_errors && !skip {
        // the static check would refuse to run the file: outside the comparison
        rec.excluded = 1;
        return Verdict::Pass;
    }
    let used: Vec<String> = (0..tr.replies as usize).map(|i| c.file.replies.get(i).cloned().unwrap_or_else(|| DEFAULT_REPLY.to_string())).collect();
    let replies_text: String = used.iter().map(|r| format!("{}\n", r)).collect();
    let seq = CHILD_SEQ.fetch_add(1, std::sync::atomic::Ordering::Relaxed);
    let dir = std::path::PathBuf::from(std::env::var("VERIF_DIR").unwrap_or_else(|_| "/verif".into())).join("out").join(format!("cli-{}-{}", std::process::id(), seq));
    let _ = std::fs::create_dir_all(&dir);
    if std::fs::write(dir.join("prog.bas"), &text).is_err() {
        return Verdict::fail("harness:io", "cannot write program file");
    }
    let mut opts: Vec<String> = vec![];
    if w {
        opts.push("--warnings".into());
    }
    if t {
        opts.push("--tracing".into());
    }
    let mut file_args = opts.clone();
    if skip {
        file_args.push("--skip-check".into());
    }
    file_args.push("prog.bas".into());
    let file_run = run_cli(&file_args, &replies_text, &dir);
    let inter_run = run_cli(&opts, &format!("{}RUN\n{}", text, replies_text), &dir);
    let _ = std::fs::remove_dir_all(&dir);
    let (f, i) = match (file_run, inter_run) {
        (Ok(f), Ok(i)) => (f, i),
        (Err(e), _) | (_, Err(e)) => {
            if e == "\u{1}timeout" {
                // not a verdict
                rec.class("child-timeout(inconclusive)");
                return Verdict::Pass;
            }
            return Verdict::fail("harness:child", e);
        }
    };
    if f.code == Some(101) || i.code == Some(101) {
        return Verdict::fail("cli-panic", format!("file mode exit {:?} stderr {:?}; interactive exit {:?} stderr {:?}; file {:?}", f.code, f.stderr, i.code, i.stderr, text));
    }
    // normalisation fixed in advance: interactive banner (2 lines) off stdout; static-analysis lines off stderr
    let i_out: String = {
        let mut it = i.stdout.splitn(3, '\n');
        let a = it.next().unwrap_or("");
        let b = it.next().unwrap_or("");
        if a.starts_with("Welcome to") && b.starts_with("Press CTRL-C") {
            it.next().unwrap_or("").to_string()
        } else {
            i.stdout.clone()
        }
    };
    let f_err: String = f.stderr.lines().filter(|l| !l.starts_with("Warning on line ")).map(|l| format!("{}\n", l)).collect();
    let show = |why: String| format!("{}; options {:?}; file {:?}; replies {:?}", why, file_args, text, used);
    if f.stdout != i_out {
        let key = if (w || t) && !f.stdout.contains('#') && i_out.contains('#') { "options-ignored-in-file-mode" } else { "stdout-differs" };
        return Verdict::fail(key, show(format!("file mode stdout {:?} vs interactive {:?}", f.stdout, i_out)));
    }
    if f_err != i.stderr {
        let key = if w && !f_err.contains("WARNING") && i.stderr.contains("WARNING") { "options-ignored-in-file-mode" } else { "stderr-differs" };
        return Verdict::fail(key, show(format!("file mode stderr {:?} vs interactive {:?}", f_err, i.stderr)));
    }
    if f.code != i.code {
        return Verdict::fail("exit-status-differs", show(format!("{:?} vs {:?}", f.code, i.code)));
    }
    rec.extra_evals = 1;
    if w && i.stderr.contains("WARNING") {
        rec.class("runtime-warnings-shown");
    }
    if t && i_out.contains('#') {
        rec.class("trace-shown");
    }
    if skip {
        rec.class("skip-check");
    }
    rec.nontrivial_if(lines.len() >= 3 && !f.stdout.is_empty() && ((w && i.stderr.contains("WARNING")) || (t && i_out.contains('#'))), hash_str(&format!("{}{}", text, c.opts)));
    Verdict::Pass
}

pub fn property() -> Property {
    let families: Vec<Box<dyn Family>> = vec![
        prop_family("in-process", 50_000, 600_000, |_| case(true), check_inproc),
        prop_family(
            "repo-programs-in-process",
            600,
            20_000,
            |_| {
                (0usize..2, any::<u64>(), crate::textgen::numeric_replies(), any::<u64>(), prop::collection::vec((any::<u16>(), 0u8..4), 0..3), any::<bool>(), any::<bool>(), any::<bool>()).prop_map(
                    |(w, seed, replies, order, dups, crlf, warnings, tracing)| FileCase { raw_lines: Some(crate::textgen::repo_program(w)), prog: Program::default(), style: Style::PLAIN, seed, replies, order, dups, crlf, warnings, tracing },
                )
            },
            check_inproc,
        ),
        prop_family("cli-processes", 8_000, 100_000, |_| (case(false), 0u8..8).prop_map(|(file, opts)| CliCase { file, opts }), check_cli),
    ];
    Property {
        id: "C15",
        rule: "Well-formed source files: grammar-generated programs rendered with random spacing/case, every line numbered, non-empty and tokenizable, lines in shuffled order, earlier duplicate definitions of some line numbers (the later one wins), LF or CRLF. in-process: SourceFileAnalyzer::analyze(text).into_interpreter() versus an interpreter into which the same lines are typed: identical LIST, and identical RUN event sequence (incl. trace and warning records) and outcome under the same seed, replies and option flags. cli-processes: for all 8 combinations of --warnings / --tracing / --skip-check, `abasic [opts] FILE < replies` versus `(lines; RUN; replies) | abasic [opts]` (private HOME, NO_COLOR=1; exactly the replies the program consumes; programs that the static check rejects only with --skip-check; programs without RND): stdout minus the two banner lines, stderr minus the `Warning on line N of` static-analysis lines, and the exit status must be identical. Non-trivial: a program of >= 3 lines that prints and shows runtime warnings or trace records under the chosen options; distinct by (file text, options).",
        assumptions: vec!["the CLI is driven with piped stdin (rustyline's non-terminal path)", "a child exceeding 60 s is counted as inconclusive, never as a violation"],
        fuzz: None,
        families,
        prelude: None,
        epilogue: None,
    }
}
