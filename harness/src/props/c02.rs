//! C02 — expressions evaluate per the language's precedence, associativity and typing.

use crate::ast::*;
use crate::core::*;
use crate::model::{Model, V};
use crate::sess::*;
use proptest::prelude::*;
use serde::{Deserialize, Serialize};

const POW_BASES: &[f64] = &[0.3, 0.1, 1.01, 10.0, -1.0, 2.0, 1.0000001, 7.0, -0.7, 0.0, 1.5, 100.0, 3.0];
const POW_EXPS: &[f64] = &[2.0, 3.0, 5.0, 10.0, 23.0, -1.0, -2.0, 365.0, -1030.0, 4294967296.0, 0.5, 1.5, -0.5, 0.0, 1.0, 64.0, 1023.0, 1024.0];
const SETUP: &[&str] = &["C = 2", "K = -3", "Q = 0.5", "C$ = \"a\"", "K$ = \"ab\""];

fn setup_model(m: &mut Model) {
    m.vars.insert("C".into(), V::N(2.0));
    m.vars.insert("K".into(), V::N(-3.0));
    m.vars.insert("Q".into(), V::N(0.5));
    m.vars.insert("C$".into(), V::S("a".into()));
    m.vars.insert("K$".into(), V::S("ab".into()));
}

fn leaves_full() -> Vec<Expr> {
    vec![
        Expr::Num(0.0),
        Expr::Num(1.0),
        Expr::Num(2.0),
        Expr::Num(0.5),
        Expr::var("C"),
        Expr::var("K"),
        Expr::var("V"),
        Expr::Str("".into()),
        Expr::Str("a".into()),
        Expr::Str("ab".into()),
        Expr::var("C$"),
        Expr::var("V$"),
    ]
}
fn leaves_mid() -> Vec<Expr> {
    vec![Expr::Num(0.0), Expr::Num(2.0), Expr::var("K"), Expr::Num(0.5), Expr::Str("a".into()), Expr::Str("".into())]
}
fn leaves_small() -> Vec<Expr> {
    vec![Expr::Num(2.0), Expr::var("K"), Expr::Num(0.5), Expr::Str("a".into())]
}
pub fn leaves_random() -> Vec<Expr> {
    let mut v = leaves_full();
    v.extend([Expr::Num(3.0), Expr::Num(10.0), Expr::Num(7.25), Expr::var("Q"), Expr::Str("b".into()), Expr::var("K$")]);
    v
}

/// Static kind of an expression over the fixed leaves: Some(true) = string.
/// None = the statement does not say what the expression yields (arithmetic
/// on two strings, unary plus on a string) — such trees are excluded.
fn kind(e: &Expr) -> Option<bool> {
    match e {
        Expr::Num(_) => Some(false),
        Expr::Str(_) => Some(true),
        Expr::Var(n) => Some(n.ends_with('$')),
        Expr::Paren(a) => kind(a),
        Expr::Abs(a) | Expr::Int(a) | Expr::Rnd(a) => kind(a).map(|_| false),
        Expr::Un(UnOp::Plus, a) => match kind(a)? {
            true => None,
            false => Some(false),
        },
        Expr::Un(_, a) => kind(a).map(|_| false),
        Expr::Bin(op, l, r) => {
            let (kl, kr) = (kind(l)?, kind(r)?);
            if op.is_arith() && kl && kr {
                None
            } else {
                Some(false)
            }
        }
        Expr::Cell(..) | Expr::Call(..) => None,
    }
}

#[derive(Serialize, Deserialize, Debug, Clone)]
pub struct ExprCase {
    pub expr: Expr,
    pub salt: u64,
}

fn grouping_matters(e: &Expr) -> bool {
    // >= 2 binary operators somewhere in one chain (nested directly)
    let mut found = false;
    e.walk(&mut |x| {
        if let Expr::Bin(_, l, r) = x {
            if matches!(**l, Expr::Bin(..)) || matches!(**r, Expr::Bin(..)) {
                found = true;
            }
        }
    });
    found
}

fn expected(e: &Expr) -> Result<String, ErrKind> {
    let prog = Program::default();
    let mut m = Model::new(&prog, 0);
    setup_model(&mut m);
    m.eval(e).map(|v| format!("{}\n", v.show()))
}

pub fn check_expr(c: &ExprCase, rec: &mut CaseRec) -> Verdict {
    let e = &c.expr;
    if kind(e).is_none() {
        rec.excluded = 1;
        return Verdict::Pass;
    }
    let want = expected(e);
    let styles = [
        Style::PLAIN,
        Style { spacing: 1, case: 1, question_mark: false, redundant_parens: 0, salt: c.salt },
        Style { spacing: 2, case: 2, question_mark: true, redundant_parens: 1, salt: c.salt },
        Style { spacing: 0, case: 0, question_mark: false, redundant_parens: 2, salt: c.salt },
    ];
    let mut sess = Sess::new();
    for l in SETUP {
        match sess.line(l) {
            Ok(r) if r.err.is_none() => {}
            other => return Verdict::fail("setup-failed", format!("{:?}", other.map(|r| r.err))),
        }
    }
    for (si, st) in styles.iter().enumerate() {
        let text = render_stmts(&[Stmt::Print(vec![PrintItem::Expr(e.clone())])], *st);
        let mut budget = 100_000u64;
        let mut out = vec![];
        let stop = match sess.line_and_run(&text, &mut budget, &mut out) {
            Ok(s) => s,
            Err(Crash(p)) => return Verdict::fail("panic", format!("{:?}: {}", text, p)),
        };
        let got: Result<String, ErrKind> = match stop {
            RunStop::Idle => Ok(printed(&out)),
            RunStop::Error(e) => Err(e.kind),
            other => return Verdict::fail("unexpected-stop", format!("{:?}: {:?}", text, other)),
        };
        if got != want {
            let key = match (&want, &got) {
                (Ok(_), Ok(_)) => "wrong-value",
                (Ok(_), Err(_)) => "unexpected-error",
                (Err(_), Ok(_)) => "missing-error",
                (Err(_), Err(_)) => "wrong-error-kind",
            };
            return Verdict::fail(
                key,
                format!("{:?} (style {}) gave {:?}, the fold of the tree gives {:?}", text, si, got, want),
            );
        }
    }
    rec.extra_evals = styles.len() as u64 - 1;
    if want.is_err() {
        rec.class("error-result");
    }
    if kind(e) == Some(true) {
        rec.class("string-result");
    }
    let gm = grouping_matters(e);
    if gm {
        rec.class("grouping-matters");
    }
    rec.nontrivial_if(gm, hash_str(&render_expr(e, Style::PLAIN)));
    Verdict::Pass
}

// ------------------------------------------------------------ enumerations

fn two_op_tree(leaves: &[Expr], i: u64) -> (Expr, u64) {
    // index layout: shape(2) x op1(13) x op2(13) x a x b x c
    let n = leaves.len() as u64;
    let mut i = i;
    let c = (i % n) as usize;
    i /= n;
    let b = (i % n) as usize;
    i /= n;
    let a = (i % n) as usize;
    i /= n;
    let o2 = ALL_BINOPS[(i % 13) as usize];
    i /= 13;
    let o1 = ALL_BINOPS[(i % 13) as usize];
    i /= 13;
    let shape = i % 2;
    i /= 2;
    let (a, b, c) = (leaves[a].clone(), leaves[b].clone(), leaves[c].clone());
    let e = if shape == 0 { Expr::bin(o2, Expr::bin(o1, a, b), c) } else { Expr::bin(o1, a, Expr::bin(o2, b, c)) };
    (e, i)
}
fn two_op_count(leaves: usize) -> u64 {
    2 * 13 * 13 * (leaves as u64).pow(3)
}

const WRAPS: usize = 5;
fn wrap(k: usize, e: Expr) -> Expr {
    match k {
        0 => Expr::un(UnOp::Plus, e),
        1 => Expr::un(UnOp::Neg, e),
        2 => Expr::un(UnOp::Not, e),
        3 => Expr::Abs(Box::new(e)),
        _ => Expr::Int(Box::new(e)),
    }
}

/// Applies wrapper `k` at node position `pos` (pre-order index among the 5
/// nodes of a two-operator tree).
fn wrap_at(e: &Expr, pos: usize, k: usize) -> Expr {
    fn go(e: &Expr, pos: usize, k: usize, ctr: &mut usize) -> Expr {
        let me = *ctr;
        *ctr += 1;
        let inner = match e {
            Expr::Bin(op, l, r) => {
                let l2 = go(l, pos, k, ctr);
                let r2 = go(r, pos, k, ctr);
                Expr::bin(*op, l2, r2)
            }
            other => other.clone(),
        };
        if me == pos {
            wrap(k, inner)
        } else {
            inner
        }
    }
    let mut ctr = 0;
    go(e, pos, k, &mut ctr)
}

fn three_op_tree(leaves: &[Expr], i: u64) -> Expr {
    let n = leaves.len() as u64;
    let mut i = i;
    let mut lf = vec![];
    for _ in 0..4 {
        lf.push(leaves[(i % n) as usize].clone());
        i /= n;
    }
    let mut ops = vec![];
    for _ in 0..3 {
        ops.push(ALL_BINOPS[(i % 13) as usize]);
        i /= 13;
    }
    let shape = i % 5;
    let (a, b, c, d) = (lf[0].clone(), lf[1].clone(), lf[2].clone(), lf[3].clone());
    let (o1, o2, o3) = (ops[0], ops[1], ops[2]);
    match shape {
        0 => Expr::bin(o3, Expr::bin(o2, Expr::bin(o1, a, b), c), d),
        1 => Expr::bin(o3, Expr::bin(o1, a, Expr::bin(o2, b, c)), d),
        2 => Expr::bin(o2, Expr::bin(o1, a, b), Expr::bin(o3, c, d)),
        3 => Expr::bin(o1, a, Expr::bin(o3, Expr::bin(o2, b, c), d)),
        _ => Expr::bin(o1, a, Expr::bin(o2, b, Expr::bin(o3, c, d))),
    }
}

// ------------------------------------------------------------ random trees

pub fn random_expr(max_nodes: u32) -> impl Strategy<Value = Expr> {
    let leaves = leaves_random();
    let n = leaves.len();
    let leaf = (0..n).prop_map(move |i| leaves[i].clone());
    leaf.prop_recursive(8, max_nodes, 2, |inner| {
        prop_oneof![
            10 => (0usize..13, inner.clone(), inner.clone()).prop_map(|(o, l, r)| Expr::bin(ALL_BINOPS[o], l, r)),
            2 => (0usize..3, inner.clone()).prop_map(|(o, e)| Expr::un(ALL_UNOPS[o], e)),
            1 => inner.clone().prop_map(|e| Expr::Abs(Box::new(e))),
            1 => inner.clone().prop_map(|e| Expr::Int(Box::new(e))),
            1 => inner.clone().prop_map(|e| Expr::Paren(Box::new(e))),
        ]
    })
}

pub fn property() -> Property {
    let families: Vec<Box<dyn Family>> = vec![
        enum_family(
            "one-op",
            true,
            |_| 13 * 144 + 5 * 12,
            |_, i| {
                let lv = leaves_full();
                let e = if i < 13 * 144 {
                    Expr::bin(ALL_BINOPS[(i / 144) as usize], lv[((i / 12) % 12) as usize].clone(), lv[(i % 12) as usize].clone())
                } else {
                    let j = i - 13 * 144;
                    wrap((j / 12) as usize, lv[(j % 12) as usize].clone())
                };
                ExprCase { expr: e, salt: i }
            },
            check_expr,
        ),
        // all trees with two binary operators (both shapes, all 169 operator pairs)
        enum_family(
            "two-op-exhaustive",
            true,
            |tier| match tier {
                Tier::Quick => two_op_count(leaves_mid().len()),
                Tier::Thorough => two_op_count(leaves_full().len()),
            },
            |tier, i| {
                let lv = if tier == Tier::Quick { leaves_mid() } else { leaves_full() };
                ExprCase { expr: two_op_tree(&lv, i).0, salt: i }
            },
            check_expr,
        ),
        // every unary / ABS / INT placement on every two-operator tree
        enum_family(
            "two-op-wrapped",
            true,
            |tier| match tier {
                Tier::Quick => two_op_count(leaves_small().len()) * 5 * WRAPS as u64,
                Tier::Thorough => two_op_count(leaves_mid().len()) * 5 * WRAPS as u64,
            },
            |tier, i| {
                let lv = if tier == Tier::Quick { leaves_small() } else { leaves_mid() };
                let base = two_op_count(lv.len());
                let (tree, _) = two_op_tree(&lv, i % base);
                let w = i / base;
                ExprCase { expr: wrap_at(&tree, (w % 5) as usize, (w / 5) as usize), salt: i }
            },
            check_expr,
        ),
        // all 13^3 operator triples in all 5 shapes
        enum_family(
            "three-op-exhaustive",
            true,
            |tier| match tier {
                Tier::Quick => 5 * 2197 * 16,      // two leaves
                Tier::Thorough => 5 * 2197 * 256,  // four leaves
            },
            |tier, i| {
                let lv = if tier == Tier::Quick { vec![Expr::Num(2.0), Expr::var("K")] } else { leaves_small() };
                ExprCase { expr: three_op_tree(&lv, i), salt: i }
            },
            check_expr,
        ),
        // powers: non-dyadic bases, whole / negative / huge / fractional exponents
        enum_family(
            "powers",
            true,
            |_| (POW_BASES.len() * POW_EXPS.len() * 2) as u64,
            |_, i| {
                let i = i as usize;
                let lit = |x: f64| if x < 0.0 { Expr::un(UnOp::Neg, Expr::Num(-x)) } else { Expr::Num(x) };
                let b = lit(POW_BASES[i % POW_BASES.len()]);
                let e = lit(POW_EXPS[(i / POW_BASES.len()) % POW_EXPS.len()]);
                let p = Expr::bin(BinOp::Pow, b, e);
                let expr = if i / (POW_BASES.len() * POW_EXPS.len()) == 0 { p } else { Expr::bin(BinOp::Mul, Expr::bin(BinOp::Pow, p, Expr::Num(2.0)), Expr::Num(3.0)) };
                ExprCase { expr, salt: i as u64 }
            },
            check_expr,
        ),
        prop_family(
            "random-trees",
            300_000,
            3_000_000,
            |_| (random_expr(40), any::<u64>()).prop_map(|(expr, salt)| ExprCase { expr, salt }),
            check_expr,
        ),
    ];
    Property {
        id: "C02",
        rule: "Expression trees over numeric/string literals, assigned and unassigned variables, 3 unary and 13 binary operators, ABS, INT, parentheses. Enumerated exhaustively: all one-operator trees, all two-operator trees (both shapes, all 169 operator pairs), every unary/ABS/INT placement on them, all 13^3 operator triples in all 5 shapes (leaf sets grow with the tier); random trees up to 40 nodes beyond. Each tree is rendered 4 ways from the property's precedence table (minimal parentheses; no blanks + lower case; random blanks/case + random redundant parentheses; fully parenthesised) and PRINTed; every rendering must equal the independent fold of the tree (value text or error kind). Non-trivial: two binary operators nested directly (grouping matters); distinct by canonical text. Trees containing arithmetic on two strings or unary plus on a string are excluded (counted): the statement does not say what they yield.",
        assumptions: vec![
            "numbers print in Rust's shortest round-trip decimal form ({}), as the interpreter documents by its own tests",
            "^ is f64::powf on both sides (IEEE-754 does not define pow; the statement's 'IEEE double arithmetic' is read as the platform powf)",
        ],
        fuzz: Some(FuzzSpec { target: "c02_expr", runs: 300_000, max_len: 64, verdict: crate::fuzz::c02_verdict }),
        families,
        prelude: None,
        epilogue: None,
    }
}
