//! C13 — every token's reported source range is exact.

use crate::core::*;
use crate::textgen::*;
use abasic_core::verif_hooks::tokenize_with_ranges;
use abasic_core::Token;
use proptest::prelude::*;
use serde::{Deserialize, Serialize};

#[derive(Serialize, Deserialize, Debug, Clone)]
pub struct LineCase {
    pub line: String,
}

fn is_rem_or_data(t: &Token) -> u8 {
    match t {
        Token::Remark(_) => 1,
        Token::Data(_) => 2,
        _ => 0,
    }
}

pub fn check_line_ranges(line: &str) -> Result<(usize, bool), (String, String)> {
    let bytes = line.as_bytes();
    let len = line.len();
    let res = catch(|| tokenize_with_ranges(line, 0)).map_err(|p| ("panic".to_string(), format!("{:?}: {}", line, p)))?;
    match res {
        Ok(tokens) => {
            let mut prev_end = 0usize;
            let mut touching = false;
            for (i, (tok, r)) in tokens.iter().enumerate() {
                let ctx = || format!("line {:?} token #{} {:?} range {:?}", line, i, tok, r);
                if !(r.start < r.end && r.end <= len) {
                    return Err(("range-out-of-bounds".into(), ctx()));
                }
                if !line.is_char_boundary(r.start) || !line.is_char_boundary(r.end) {
                    return Err(("range-splits-char".into(), ctx()));
                }
                if r.start < prev_end {
                    return Err(("ranges-overlap-or-unordered".into(), ctx()));
                }
                if !bytes[prev_end..r.start].iter().all(|b| is_basic_blank(*b)) {
                    return Err(("gap-not-blank".into(), ctx()));
                }
                if is_basic_blank(bytes[r.start]) {
                    return Err(("range-starts-on-blank".into(), ctx()));
                }
                match is_rem_or_data(tok) {
                    0 => {
                        if is_basic_blank(bytes[r.end - 1]) {
                            return Err(("range-ends-on-blank".into(), ctx()));
                        }
                    }
                    1 => {
                        if r.end != len {
                            return Err(("rem-range-not-to-end".into(), ctx()));
                        }
                    }
                    _ => {
                        // DATA extends to the end of its text: the end of the line or the terminating colon
                        if !(r.end == len || bytes[r.end] == b':') {
                            return Err(("data-range-not-to-end".into(), ctx()));
                        }
                    }
                }
                if (r.start > 0 && (is_basic_blank(bytes[r.start - 1]) || bytes[r.start - 1] >= 0x80))
                    || (r.end < len && (is_basic_blank(bytes[r.end]) || bytes[r.end] >= 0x80))
                    || line[r.clone()].bytes().any(|b| is_basic_blank(b) || b >= 0x80)
                {
                    touching = true;
                }
                // the text of the range on its own is exactly this token
                let slice = &line[r.clone()];
                match catch(|| tokenize_with_ranges(slice, 0)) {
                    Err(p) => return Err(("panic".into(), format!("{}: re-tokenizing {:?}: {}", ctx(), slice, p))),
                    Ok(Ok(v)) => {
                        if !(v.len() == 1 && &v[0].0 == tok && v[0].1 == (0..slice.len())) {
                            return Err(("slice-is-not-the-token".into(), format!("{}: slice {:?} tokenizes as {:?}", ctx(), slice, v)));
                        }
                    }
                    Ok(Err(f)) => return Err(("slice-is-not-the-token".into(), format!("{}: slice {:?} fails: {:?}", ctx(), slice, f))),
                }
                prev_end = r.end;
            }
            if !bytes[prev_end..].iter().all(|b| is_basic_blank(*b)) {
                return Err(("gap-not-blank".into(), format!("line {:?}: non-blank text after the last token", line)));
            }
            Ok((tokens.len(), touching))
        }
        Err(f) => {
            let ctx = || format!("line {:?} failure {:?}", line, f);
            if !(f.range.start <= f.range.end && f.range.start < len.max(1) && f.range.end <= len) {
                return Err(("error-range-out-of-bounds".into(), ctx()));
            }
            if !line.is_char_boundary(f.range.start) {
                return Err(("error-start-splits-char".into(), ctx()));
            }
            let prefix = &line[..f.range.start];
            match catch(|| tokenize_with_ranges(prefix, 0)) {
                Err(p) => Err(("panic".into(), format!("{}: tokenizing the prefix: {}", ctx(), p))),
                Ok(Ok(v)) => {
                    if v != f.tokens_before {
                        return Err(("prefix-tokens-differ".into(), format!("{}: prefix {:?} gives {:?}", ctx(), prefix, v)));
                    }
                    Ok((0, false))
                }
                Ok(Err(e2)) => Err(("prefix-does-not-tokenize".into(), format!("{}: prefix {:?} fails with {:?}", ctx(), prefix, e2))),
            }
        }
    }
}

fn check(c: &LineCase, rec: &mut CaseRec) -> Verdict {
    match check_line_ranges(&c.line) {
        Ok((ntok, touching)) => {
            if ntok == 0 {
                rec.class("does-not-tokenize-or-empty");
            }
            if touching {
                rec.class("blank-or-multibyte-at-token");
            }
            rec.nontrivial_if(ntok >= 3 && touching, hash_str(&c.line));
            Verdict::Pass
        }
        Err((k, d)) => Verdict::fail(k, d),
    }
}

/// A file of numbered lines for the analyzer, whose per-line token ranges are the
/// same reported ranges seen through a second door.
#[derive(Serialize, Deserialize, Debug, Clone)]
pub struct DocCase {
    pub lines: Vec<String>,
}

const NUMBER_SPELLINGS: &[&str] = &["5", "90", "100", "1000", "20", "007", "12345", " 30", "  4", "18446744073709551615"];
const COMMON_STATEMENTS: &[&str] = &["return", "NEXT I", "print y", "GOSUB 1000", "REM é x", "PRINT \"éé\"; Z", "X = X + 1 : PRINT X", "DATA a, \"b\" : READ Q$"];

fn doc_case() -> impl Strategy<Value = DocCase> {
    let text = prop_oneof![
        3 => (0..COMMON_STATEMENTS.len()).prop_map(|i| COMMON_STATEMENTS[i].to_string()),
        2 => atom_line(8),
        2 => super::c12::seg_line().prop_map(|l| super::c12::base_text(&l)),
    ];
    (prop::collection::vec(text, 1..4), prop::collection::vec((0..NUMBER_SPELLINGS.len(), 0u8..3, any::<u16>()), 2..8)).prop_map(|(texts, rows)| DocCase {
        lines: rows.into_iter().map(|(n, gap, t)| format!("{}{}{}", NUMBER_SPELLINGS[n], " ".repeat(gap as usize), texts[idx(t, texts.len())].replace('\n', " "))).collect(),
    })
}

/// The analyzer reports, per file line, the line-number token followed by the
/// tokenizer's ranges; they must be exactly the ranges the per-line families verify.
fn check_doc(c: &DocCase, rec: &mut CaseRec) -> Verdict {
    let text = c.lines.join("\n");
    let analyzer = match catch(|| abasic_core::SourceFileAnalyzer::analyze(text.clone())) {
        Ok(a) => a,
        Err(p) => return Verdict::fail("panic", format!("analyze({:?}): {}", text, p)),
    };
    if analyzer.token_types().len() != c.lines.len() {
        return Verdict::fail("token-list-count", format!("{} token lists for {} lines of {:?}", analyzer.token_types().len(), c.lines.len(), text));
    }
    let mut compared = 0;
    let mut repeated = false;
    for (li, line) in c.lines.iter().enumerate() {
        let Some((_, skip)) = abasic_core::verif_hooks::parse_line_number(line) else { continue };
        let expect = match catch(|| tokenize_with_ranges(line, skip)) {
            Ok(Ok(v)) => v,
            Ok(Err(_)) => continue,
            Err(p) => return Verdict::fail("panic", format!("{:?}: {}", line, p)),
        };
        if let Err((k, d)) = check_line_ranges(&line[skip..]) {
            // the statement text on its own (ranges relative to it) must satisfy the predicate too
            return Verdict::fail(k, d);
        }
        let mut want: Vec<std::ops::Range<usize>> = vec![0..skip];
        want.extend(expect.iter().map(|(_, r)| r.clone()));
        let got: Vec<std::ops::Range<usize>> = analyzer.token_types()[li].iter().map(|(_, r)| r.clone()).collect();
        if got != want {
            return Verdict::fail("analyzer-ranges-differ", format!("file line {} {:?} of {:?}: analyzer reports {:?}, the tokenizer {:?}", li, line, c.lines, got, want));
        }
        compared += 1;
        if c.lines[..li].iter().any(|l| abasic_core::verif_hooks::parse_line_number(l).map(|(_, s)| l[s..] == line[skip..] && s != skip).unwrap_or(false)) {
            repeated = true;
        }
    }
    if repeated {
        rec.class("same-statement-under-numbers-of-different-width");
    }
    rec.nontrivial_if(compared >= 2 && repeated, hash_str(&text));
    Verdict::Pass
}

pub fn property() -> Property {
    let families: Vec<Box<dyn Family>> = vec![
        enum_family(
            "atoms-exhaustive",
            true,
            |tier| {
                let max = if tier == Tier::Quick { 4 } else { 5 };
                (0..=max).map(atom_count).sum()
            },
            |_, mut i| {
                let mut len = 0;
                while i >= atom_count(len) {
                    i -= atom_count(len);
                    len += 1;
                }
                LineCase { line: atom_string(len, i) }
            },
            check,
        ),
        enum_family(
            "repo-lines",
            true,
            |_| repo_lines().len() as u64,
            |_, i| LineCase { line: repo_lines()[i as usize].clone() },
            check,
        ),
        prop_family("segment-lines", 300_000, 3_000_000, |_| super::c12::seg_line().prop_map(|l| LineCase { line: super::c12::base_text(&l) }), check),
        prop_family("analyzer-documents", 150_000, 1_500_000, |_| doc_case(), check_doc),
        prop_family("atoms-random", 1_000_000, 10_000_000, |_| atom_line(40).prop_map(|line| LineCase { line }), check),
        prop_family(
            "raw-text",
            300_000,
            4_000_000,
            |_| prop_oneof!["\\PC{0,40}", "[ -~\t]{0,60}", any::<String>()].prop_map(|line| LineCase { line: line.replace('\n', " ") }),
            check,
        ),
    ];
    Property {
        id: "C13",
        rule: "Lines over a 40-atom alphabet (keywords, identifiers incl. keyword-containing ones, numerals incl. spaced and dotted, one- and two-character operators incl. spaced, quotes, strings with multi-byte text, blanks, tabs, multi-byte and illegal characters): all atom strings up to length 3 (quick) / 5 (thorough) exhaustively, random ones up to length 40, the token-dense segment lines of C12 (identifiers over every letter, tight digit-letter-sign-digit runs, DATA chunks, REM tails), every line of the repo's programs and test sources, and raw printable/Unicode text. analyzer-documents: files of 2-7 numbered lines drawing on 1-3 statement texts (so the same statement recurs under line numbers of different width and indentation); the ranges SourceFileAnalyzer::token_types() reports per file line must equal the line-number token followed by the tokenizer's ranges for that line. Oracle: ranges in bounds, on char boundaries, ordered, disjoint, only blanks between them, starting/ending on non-blanks (REM to end of line, DATA to end of line or colon), and tokenizing each range's text alone yields exactly that token; on failure the error start is in the line, on a char boundary, and the prefix tokenizes to exactly the tokens reported before the error. Non-trivial: a tokenizable line with >= 3 tokens and a blank or multi-byte character inside or adjacent to a token; distinct by text.",
        assumptions: vec!["the hook tokenize_with_ranges iterates the real Tokenizer with skip_bytes=0 and reports TokenizationError::string_range"],
        fuzz: Some(FuzzSpec { target: "c13_ranges", runs: 2_000_000, max_len: 256, verdict: crate::fuzz::c13_verdict }),
        families,
        prelude: None,
        epilogue: None,
    }
}
