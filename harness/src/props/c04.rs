//! C04 — the program store is a last-writer-wins map, listed and run in line order.

use crate::ast::{render_stmts, Style};
use crate::core::*;
use crate::gen::{self, GenCfg};
use crate::sess::*;
use proptest::prelude::*;
use serde::{Deserialize, Serialize};
use std::collections::BTreeMap;

#[derive(Serialize, Deserialize, Debug, Clone)]
pub enum Op {
    /// Enter / replace: number spelled with `zeros` leading zeros after `blanks` blanks.
    Enter {
        num: u64,
        zeros: u8,
        blanks: u8,
        gap: u8,
        payload: Option<String>,
        /// serial payloads only: the line is `REM <serial>` instead of `PRINT <serial>`
        #[serde(default)]
        rem: bool,
        /// serial payloads only: the line is `STOP` (a RUN reaching it leaves the program suspended)
        #[serde(default)]
        stop: bool,
    },
    /// A bare number: deletes the line.
    Delete { num: u64, zeros: u8, blanks: u8, trailing: u8 },
    /// A numbered line that does not tokenize: changes nothing.
    Fail { num: u64, zeros: u8, kind: u8 },
    /// A "line number" of 20+ digits is not a line number: the line is an immediate statement (and fails).
    Huge(u8),
    List,
    Run,
}

#[derive(Serialize, Deserialize, Debug, Clone)]
pub struct Hist {
    pub ops: Vec<Op>,
}

const POOL: &[u64] = &[0, 1, 9, 10, 4294967296, 9223372036854775808, 18446744073709551614, 18446744073709551615];
const BAD: &[&str] = &["PRINT \"unterminated", "PRINT 1 % 2", "X = 1.2.3", "PRINT é", "\"", "A = 1 : B = \"x"];
const HUGE: &[&str] = &["18446744073709551616 PRINT 1", "99999999999999999999 PRINT 2", "00000000000000000000018446744073709551616 PRINT 3", "100000000000000000000000000000"];

fn num() -> impl Strategy<Value = u64> {
    prop_oneof![
        6 => 0u64..12,
        3 => (0..POOL.len()).prop_map(|i| POOL[i]),
        1 => any::<u64>(),
    ]
}

fn op(with_stmts: bool) -> impl Strategy<Value = Op> {
    let payload = if with_stmts {
        prop::option::weighted(
            0.7,
            (prop::collection::vec(gen_stmt(), 1..3), gen::style()).prop_map(|(s, st)| render_stmts(&s, Style { redundant_parens: 0, ..st })),
        )
        .boxed()
    } else {
        Just(None).boxed()
    };
    prop_oneof![
        10 => (num(), 0u8..3, 0u8..3, 0u8..3, payload, prop::bool::weighted(0.25), prop::bool::weighted(0.08)).prop_map(|(num, zeros, blanks, gap, payload, rem, stop)| Op::Enter { num, zeros, blanks, gap, payload, rem, stop }),
        4 => (num(), 0u8..3, 0u8..3, 0u8..3).prop_map(|(num, zeros, blanks, trailing)| Op::Delete { num, zeros, blanks, trailing }),
        3 => (num(), 0u8..3, 0u8..(BAD.len() as u8)).prop_map(|(num, zeros, kind)| Op::Fail { num, zeros, kind }),
        1 => (0u8..(HUGE.len() as u8)).prop_map(Op::Huge),
        2 => Just(Op::List),
        2 => Just(Op::Run),
    ]
}

fn gen_stmt() -> BoxedStrategy<crate::ast::Stmt> {
    // simple, always-tokenizable statements (no jumps: targets would be meaningless here)
    let cfg = GenCfg { error_weight: 2, allow_wild: false, ..GenCfg::C03 };
    gen::simple_stmt(cfg)
}

fn spell(num: u64, zeros: u8, blanks: u8) -> String {
    format!("{}{}{}", " ".repeat(blanks as usize), "0".repeat(zeros as usize), num)
}

pub fn check(h: &Hist, rec: &mut CaseRec) -> Verdict {
    // model: number -> (payload text as it must be listed for serial payloads, typed text)
    let mut map: BTreeMap<u64, (Option<u64>, String)> = BTreeMap::new();
    let mut s = Sess::new();
    let (mut replaces, mut deletes, mut fails) = (0, 0, 0);
    let serial_only = h.ops.iter().all(|o| !matches!(o, Op::Enter { payload: Some(_), .. }));
    for (i, o) in h.ops.iter().enumerate() {
        match o {
            Op::Enter { num, zeros, blanks, gap, payload, rem, stop } => {
                let (serial, stmt) = match payload {
                    None if *stop && serial_only => (Some(i as u64), "STOP".to_string()),
                    None if *rem && serial_only => (Some(i as u64), format!("REM {}", i)),
                    None => (Some(i as u64), format!("PRINT {}", i)),
                    Some(t) => (None, t.clone()),
                };
                // a payload starting with a digit would extend the number
                let g = if *gap == 0 && !stmt.starts_with(|c: char| c.is_ascii_digit() || c == '.') { "" } else if *gap == 2 { "  " } else { " " };
                let line = format!("{}{}{}", spell(*num, *zeros, *blanks), g, stmt);
                match s.line(&line) {
                    Err(Crash(p)) => return Verdict::fail("panic-entering", format!("{:?}: {}", line, p)),
                    Ok(r) => {
                        if let Some(e) = r.err {
                            return Verdict::fail("valid-line-rejected", format!("{:?}: {}", line, e.text));
                        }
                    }
                }
                if map.contains_key(num) {
                    replaces += 1;
                }
                map.insert(*num, (serial, stmt));
            }
            Op::Delete { num, zeros, blanks, trailing } => {
                let line = format!("{}{}", spell(*num, *zeros, *blanks), " ".repeat(*trailing as usize));
                match s.line(&line) {
                    Err(Crash(p)) => return Verdict::fail("panic-deleting", format!("{:?}: {}", line, p)),
                    Ok(r) => {
                        if let Some(e) = r.err {
                            return Verdict::fail("bare-number-rejected", format!("{:?}: {}", line, e.text));
                        }
                    }
                }
                if map.remove(num).is_some() {
                    deletes += 1;
                }
            }
            Op::Fail { num, zeros, kind } => {
                let line = format!("{} {}", spell(*num, *zeros, 0), BAD[*kind as usize]);
                match s.line(&line) {
                    Err(Crash(p)) => return Verdict::fail("panic-failed-edit", format!("{:?}: {}", line, p)),
                    Ok(r) => match r.err {
                        Some(e) if e.kind == ErrKind::SyntaxTokenization => fails += 1,
                        other => return Verdict::fail("bad-line-not-rejected", format!("{:?}: {:?}", line, other)),
                    },
                }
            }
            Op::Huge(k) => {
                let line = HUGE[*k as usize];
                match s.line(line) {
                    Err(Crash(p)) => return Verdict::fail("panic-huge-number", format!("{:?}: {}", line, p)),
                    Ok(r) => {
                        if r.err.is_none() {
                            return Verdict::fail("huge-number-accepted", format!("{:?} was accepted without error", line));
                        }
                        fails += 1;
                    }
                }
            }
            Op::List => {
                if let Some(v) = compare_list(&mut s, &map, serial_only) {
                    return v;
                }
            }
            Op::Run => {
                if let Some(v) = compare_run(&mut s, &map, serial_only) {
                    return v;
                }
            }
        }
    }
    if let Some(v) = compare_list(&mut s, &map, serial_only) {
        return v;
    }
    if let Some(v) = compare_run(&mut s, &map, serial_only) {
        return v;
    }
    if map.keys().any(|k| *k >= (1 << 63)) {
        rec.class("line-number>=2^63");
    }
    if map.contains_key(&u64::MAX) {
        rec.class("line-18446744073709551615-stored");
    }
    let kinds: Vec<u8> = h.ops.iter().map(|o| match o {
        Op::Enter { .. } => 0,
        Op::Delete { .. } => 1,
        Op::Fail { .. } => 2,
        Op::Huge(_) => 3,
        Op::List => 4,
        Op::Run => 5,
    }).collect();
    rec.nontrivial_if(replaces >= 1 && deletes >= 1 && fails >= 1 && map.len() >= 3, hash_of(&(kinds, map.keys().cloned().collect::<Vec<_>>())));
    Verdict::Pass
}

fn compare_list(s: &mut Sess, map: &BTreeMap<u64, (Option<u64>, String)>, serial_only: bool) -> Option<Verdict> {
    let got = match s.list() {
        Ok(l) => l,
        Err(Crash(p)) => return Some(Verdict::fail("panic-listing", p)),
    };
    if serial_only {
        // compared up to blanks and letter case: how LIST spaces a line is C14's business
        let norm = |v: &[String]| -> Vec<String> { v.iter().map(|l| l.chars().filter(|c| !c.is_whitespace()).map(|c| c.to_ascii_uppercase()).collect()).collect() };
        let want: Vec<String> = map.iter().map(|(n, (_, text))| format!("{} {}\n", n, text)).collect();
        if norm(&got) != norm(&want) {
            return Some(Verdict::fail("list-differs-from-map", format!("want {:?} got {:?}", want, got)));
        }
    } else {
        let mut f = Sess::new();
        for (n, (_, t)) in map {
            if f.line(&format!("{} {}", n, t)).map(|r| r.err.is_some()).unwrap_or(true) {
                return Some(Verdict::fail("reference-rejects-line", format!("{} {}", n, t)));
            }
        }
        let want = match f.list() {
            Ok(l) => l,
            Err(Crash(p)) => return Some(Verdict::fail("panic-listing", p)),
        };
        if got != want {
            return Some(Verdict::fail("list-differs-from-fresh", format!("want {:?} got {:?}", want, got)));
        }
        // the numbers listed, in order, are exactly the map's keys
        let nums: Vec<String> = got.iter().map(|l| l.split(' ').next().unwrap_or("").to_string()).collect();
        let keys: Vec<String> = map.keys().map(|k| k.to_string()).collect();
        if nums != keys {
            return Some(Verdict::fail("list-order", format!("want {:?} got {:?}", keys, nums)));
        }
    }
    None
}

fn run_transcript(s: &mut Sess) -> Result<(Vec<Out>, String), Crash> {
    // same random-number state on both sides of a comparison
    s.randomize(12345);
    let mut out = vec![];
    let mut budget = 2000u64;
    let stop = s.line_and_run("RUN", &mut budget, &mut out)?;
    let tail = match &stop {
        RunStop::Error(e) => format!("error {:?} {:?}", e.kind, e.line),
        other => format!("{:?}", other),
    };
    if s.state()? != St::Idle {
        s.brk()?;
    }
    Ok((out, tail))
}

fn compare_run(s: &mut Sess, map: &BTreeMap<u64, (Option<u64>, String)>, serial_only: bool) -> Option<Verdict> {
    let (out, tail) = match run_transcript(s) {
        Ok(x) => x,
        Err(Crash(p)) => {
            let key = if map.contains_key(&u64::MAX) { "panic-running-with-max-line" } else { "panic-running" };
            return Some(Verdict::fail(key, format!("{} with lines {:?}", p, map.keys().collect::<Vec<_>>())));
        }
    };
    if serial_only {
        // comment lines print nothing; the run ends at the first STOP
        let want: String = map.values().take_while(|(_, text)| text != "STOP").filter(|(_, text)| !text.starts_with("REM")).map(|(k, _)| format!("{}\n", k.unwrap())).collect();
        let got = printed(&out);
        if got != want || tail != "Idle" {
            return Some(Verdict::fail("run-differs-from-map", format!("lines {:?}: want {:?} got {:?} / {}", map.keys().collect::<Vec<_>>(), want, got, tail)));
        }
    } else {
        let mut f = Sess::new();
        for (n, (_, t)) in map {
            let _ = f.line(&format!("{} {}", n, t));
        }
        match run_transcript(&mut f) {
            Err(Crash(p)) => return Some(Verdict::fail("panic-running", p)),
            Ok((fo, ft)) => {
                if fo != out || ft != tail {
                    return Some(Verdict::fail("run-differs-from-fresh", format!("program {:?}: used interpreter {:?}/{}, fresh {:?}/{}", map, out, tail, fo, ft)));
                }
            }
        }
    }
    None
}

pub fn property() -> Property {
    let families: Vec<Box<dyn Family>> = vec![
        prop_family("serial-payloads", 300_000, 3_000_000, |_| prop::collection::vec(op(false), 1..80).prop_map(|ops| Hist { ops }), check),
        prop_family("statement-payloads", 100_000, 1_000_000, |_| prop::collection::vec(op(true), 1..40).prop_map(|ops| Hist { ops }), check),
    ];
    Property {
        id: "C04",
        rule: "Histories of 1-80 operations over {enter/replace a line, delete by bare number (existing or not), failed edit (unterminated string, illegal character, bad numeral, multi-byte), 20+-digit pseudo line numbers, LIST, RUN}; line numbers from {0..11} (forcing collisions), {0, 1, 9, 10, 2^32, 2^63, 2^64-2, 2^64-1} and random u64, spelled with leading zeros / leading blanks / with or without a blank before the statement. serial-payloads: each entered line is `PRINT <serial>` or, one time in four, `REM <serial>` (a line that must be listed but prints nothing), one in twelve `STOP` (RUN ends there and leaves the program suspended while the next edits arrive); oracle = BTreeMap updated by the stated rules, LIST must equal its rendering and RUN must print the serials in key order (independent of the tokenizer). statement-payloads: arbitrary generated statements; LIST and RUN must equal those of a fresh interpreter into which the map's surviving lines are typed once in ascending order. LIST and RUN are checked wherever they occur and at the end. Non-trivial: >= 1 replace, >= 1 delete of an existing line, >= 1 failed edit and >= 3 surviving lines; distinct by op-kind sequence + surviving numbers.",
        assumptions: vec!["RUN transcripts are compared under a 2000-turn budget"],
        fuzz: Some(FuzzSpec { target: "c04_edits", runs: 40_000, max_len: 400, verdict: crate::fuzz::c04_verdict }),
        families,
        prelude: None,
        epilogue: None,
    }
}
