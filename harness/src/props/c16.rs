//! C16 — runtime state stays within its caps and obeys name-suffix typing.

use crate::core::*;
use crate::props::c01::{hostile_session, structured_session, Session};
use crate::sess::*;
use abasic_core::verif_hooks::{tokenize_with_ranges, Snapshot};
use abasic_core::Token;
use proptest::prelude::*;
use serde::{Deserialize, Serialize};
use std::collections::HashSet;

pub const STACK_CAP: usize = 32;
pub const LOOP_CAP: usize = 32;
pub const ARRAY_CAP: usize = 10000;

pub fn check_invariants(snap: &Snapshot, for_vars_seen: Option<&HashSet<String>>) -> Result<(), (String, String)> {
    if snap.frames.len() > STACK_CAP {
        return Err(("stack-exceeds-cap".into(), format!("{} frames", snap.frames.len())));
    }
    if snap.loops.len() > LOOP_CAP {
        return Err(("loops-exceed-cap".into(), format!("{} open loops", snap.loops.len())));
    }
    let distinct: HashSet<&String> = snap.loops.iter().collect();
    if distinct.len() != snap.loops.len() {
        return Err(("two-loops-same-variable".into(), format!("open loops {:?}", snap.loops)));
    }
    if let Some(seen) = for_vars_seen {
        if snap.loops.iter().any(|v| !seen.contains(v)) {
            return Err(("loop-for-unknown-variable".into(), format!("open loops {:?}, FOR variables executed {:?}", snap.loops, seen)));
        }
    }
    for (name, dims, cells, is_str) in &snap.arrays {
        let product: u128 = dims.iter().map(|d| *d as u128).product();
        if product != *cells as u128 || dims.is_empty() {
            return Err(("array-cells-differ-from-dimensions".into(), format!("{} dims {:?} cells {}", name, dims, cells)));
        }
        if *cells > ARRAY_CAP {
            return Err(("array-exceeds-cap".into(), format!("{} has {} cells", name, cells)));
        }
        if *is_str != name.ends_with('$') {
            return Err(("array-kind-mismatch".into(), format!("array {} holds {}", name, if *is_str { "strings" } else { "numbers" })));
        }
    }
    for (name, is_str) in &snap.variables {
        if *is_str != name.ends_with('$') {
            return Err(("variable-kind-mismatch".into(), format!("variable {} holds a {}", name, if *is_str { "string" } else { "number" })));
        }
    }
    for f in &snap.frames {
        for (name, is_str) in f {
            if *is_str != name.ends_with('$') {
                return Err(("parameter-kind-mismatch".into(), format!("parameter {} bound to a {}", name, if *is_str { "string" } else { "number" })));
            }
        }
    }
    Ok(())
}

fn for_vars_in(line: &str, into: &mut HashSet<String>) {
    let skip = abasic_core::verif_hooks::parse_line_number(line).map(|(_, e)| e).unwrap_or(0);
    if let Ok(Ok(toks)) = catch(|| tokenize_with_ranges(line, skip)) {
        for w in toks.windows(2) {
            if let (Token::For, Token::Symbol(s)) = (&w[0].0, &w[1].0) {
                into.insert(s.to_string());
            }
        }
    }
}

const ILL_TYPED: &[&str] = &[
    "C = \"a\"", "C$ = 1", "LET Q = \"s\"", "LET Q$ = 2", "VV(1) = \"a\"", "VV$(1) = 1", "WW(1,1) = \"x\"", "FOR C$ = 1 TO 2", "FOR K$ = \"a\" TO \"b\"", "NEXT C$",
    "10 DATA abc, 5, \"q\"", "READ C", "READ C$, J$, K", "READ VV(2)", "READ VV$(2), VV$(3)", "INPUT C", "INPUT VV(4)", "INPUT VV$(4)", "20 DEF QQ(C) = C + 1",
    "30 DEF ZZ$(C$) = C$", "40 DEF JJ(K, C$) = K", "50 PRINT QQ(\"a\") : PRINT ZZ$(1) : PRINT JJ(\"a\", 1)", "60 PRINT JJ(1, \"a\")", "RUN", "PRINT QQ(\"a\")", "PRINT ZZ$(1)", "RESTORE",
];

/// FOR / NEXT / GOSUB typed one statement per turn at the prompt (every direct-mode
/// statement shares the immediate line's location), and program lines whose THEN and
/// ELSE clauses both open loops, re-entered by a counter-guarded jump.
const LOOPY: &[&str] = &[
    "FOR I = 1 TO 1", "FOR J = 1 TO 1 STEP 1", "FOR K = 1 TO 3", "FOR I = 1 TO 2 STEP 1", "FOR J = 5 TO 1 STEP -1", "NEXT I", "NEXT J", "NEXT K",
    "FOR I = 1 TO 2 : FOR J = 1 TO 2", "FOR J = 1 TO 2 : FOR I = 1 TO 2 : FOR J = 1 TO 2", "NEXT J : NEXT I", "GOSUB 100", "RETURN", "GOTO 10", "GOTO 20", "RUN", "CONT",
    "A = 1 - A", "C = 0", "10 FOR J = 1 TO 5", "10 FOR I = 1 TO 2", "10", "20 A = 1 - A : IF A THEN FOR I = 1 TO 5 ELSE FOR J = 1 TO 5",
    "20 IF A THEN FOR K = 1 TO 2 ELSE FOR I = 1 TO 2", "20", "30 C = C + 1 : IF C < 4 THEN 20", "30 C = C + 1 : IF C < 40 THEN 10", "30", "40 NEXT I", "40 NEXT J", "40 STOP", "40",
    "100 FOR K = 1 TO 2 : RETURN", "100 RETURN", "15 GOSUB 100", "15",
];

fn loop_session() -> impl Strategy<Value = Session> {
    let intent = prop_oneof![
        12 => (0..LOOPY.len()).prop_map(|i| Intent::Line(LOOPY[i].to_string())),
        4 => (1u16..40).prop_map(Intent::Continue),
        1 => Just(Intent::Break),
    ];
    prop::collection::vec(intent, 1..60).prop_map(|intents| Session { intents, verify_listing: false })
}

fn typing_session() -> impl Strategy<Value = Session> {
    let pool = crate::run::reply_pool();
    let intent = prop_oneof![
        10 => (0..ILL_TYPED.len()).prop_map(|i| Intent::Line(ILL_TYPED[i].to_string())),
        3 => (1u16..30).prop_map(Intent::Continue),
        3 => (0..pool.len()).prop_map(move |i| Intent::Reply(pool[i].to_string())),
        1 => Just(Intent::Break),
    ];
    prop::collection::vec(intent, 1..50).prop_map(|intents| Session { intents, verify_listing: false })
}

pub fn check_session(s: &Session, rec: &mut CaseRec) -> Verdict {
    let mut sess = Sess::new();
    let mut seen = HashSet::new();
    let mut kinds: Vec<u8> = vec![];
    let (mut max_depth, mut max_loops, mut max_cells, mut rejected, mut oom) = (0usize, 0usize, 0usize, 0u32, 0u32);
    for (ii, intent) in s.intents.iter().enumerate() {
        if let Intent::Line(t) | Intent::Reply(t) = intent {
            if sess.state().map(|s| s == St::Idle).unwrap_or(false) {
                for_vars_in(t, &mut seen);
            }
        }
        let calls = match sess.apply(intent) {
            Ok(c) => c,
            Err(Crash(p)) => return Verdict::fail("panic", format!("intent #{} {:?}: {}", ii, intent, p)),
        };
        for (kind, _, r) in calls {
            kinds.push(kind as u8 * 4 + if r.err.is_some() { 1 } else { 0 } + if r.state == St::Idle { 0 } else { 2 });
            if let Some(e) = &r.err {
                match e.kind {
                    ErrKind::TypeMismatch | ErrKind::DataTypeMismatch => rejected += 1,
                    ErrKind::StackOverflow | ErrKind::ArrayTooLarge => oom += 1,
                    _ => {}
                }
            }
            if r.out.iter().any(|o| matches!(o, Out::Reenter)) {
                rejected += 1;
            }
            let snap = sess.interp.verif_snapshot();
            // numbered lines entered may contain FOR statements executed later
            if let Err((k, d)) = check_invariants(&snap, Some(&seen)) {
                return Verdict::fail(k, format!("after intent #{} {:?}: {}; session {:?}", ii, intent, d, &s.intents[..=ii]));
            }
            max_depth = max_depth.max(snap.frames.len());
            max_loops = max_loops.max(snap.loops.len());
            max_cells = max_cells.max(snap.arrays.iter().map(|a| a.2).max().unwrap_or(0));
        }
    }
    // still usable
    if sess.state().map(|s| s != St::Idle).unwrap_or(true) {
        if let Err(Crash(p)) = sess.brk() {
            return Verdict::fail("panic", p);
        }
    }
    let mut o = vec![];
    let mut b = 20u64;
    match sess.line_and_run("PRINT 7", &mut b, &mut o) {
        Ok(RunStop::Idle) if printed(&o) == "7\n" => {}
        other => return Verdict::fail("unusable-after-session", format!("{:?}", other.map_err(|c| c.0))),
    }
    if max_depth >= 31 {
        rec.class("stack-depth>=31");
    }
    if max_loops >= 31 {
        rec.class("open-loops>=31");
    }
    if max_cells >= 5000 {
        rec.class("array>=5000-cells");
    }
    if rejected > 0 {
        rec.class("ill-typed-write-rejected");
    }
    if oom > 0 {
        rec.class("out-of-memory-reported");
    }
    rec.nontrivial_if(max_depth >= 31 || max_loops >= 31 || max_cells >= 5000 || rejected > 0, hash_of(&kinds));
    Verdict::Pass
}

// ------------------------------------------------------------------ exact cap scripts

#[derive(Serialize, Deserialize, Debug, Clone)]
pub struct CapCase {
    pub kind: String,
    pub n: u32,
}

fn cap_script(c: &CapCase) -> (Vec<String>, Option<ErrKind>, String) {
    // returns (lines to enter incl. RUN or immediate), expected error of the last one, what is measured
    let n = c.n as usize;
    match c.kind.as_str() {
        "gosub" => (
            vec!["10 Z = 0 : GOSUB 100 : PRINT \"done\" : END".into(), format!("100 Z = Z + 1 : IF Z < {} THEN GOSUB 100", n), "110 RETURN".into(), "RUN".into()],
            if n > STACK_CAP { Some(ErrKind::StackOverflow) } else { None },
            "frames".into(),
        ),
        "for" => {
            let mut l = String::from("10 ");
            for i in 1..=n {
                l.push_str(&format!("FOR C{} = 1 TO 1 : ", i));
            }
            l.push_str("PRINT \"in\"");
            (vec![l, "RUN".into()], if n > LOOP_CAP { Some(ErrKind::StackOverflow) } else { None }, "loops".into())
        }
        "for-reenter" => (
            // the same FOR re-entered by GOTO n times never accumulates
            vec![format!("10 Z = Z + 1 : FOR C = 1 TO 3 : FOR J = 1 TO 3 : IF Z < {} THEN 10", n), "RUN".into()],
            None,
            "loops-reentered".into(),
        ),
        "loops-abandoned" => (
            vec![
                "10 FOR C = 1 TO 2 : FOR J = 1 TO 2 : FOR K = 1 TO 2 : GOSUB 100".into(),
                format!("20 Z = Z + 1 : IF Z < {} THEN 10", n),
                "30 END".into(),
                "100 FOR Y = 1 TO 5 : RETURN".into(),
                "RUN".into(),
            ],
            None,
            "loops-abandoned".into(),
        ),
        // a failing statement executed while a cap is (nearly) reached: which error wins is
        // not specified, only the invariants and usability are checked (kinds starting with x-)
        "x-for-badvar" | "x-for-badlimit" => {
            let mut l = String::from("10 ");
            for i in 1..=n {
                l.push_str(&format!("FOR C{} = 1 TO 1 : ", i));
            }
            l.push_str(if c.kind == "x-for-badvar" { "FOR K$ = 1 TO 2 : PRINT \"in\"" } else { "FOR K = 1 TO \"x\" : PRINT \"in\"" });
            (vec![l, "RUN".into(), "FOR J$ = 1 TO 2".into(), "FOR J = \"a\" TO 2".into()], None, "loops".into())
        }
        "x-gosub-undef" => (
            vec![
                "10 Z = 0 : GOSUB 100 : PRINT \"done\" : END".into(),
                format!("100 Z = Z + 1 : IF Z < {} THEN GOSUB 100", n),
                "110 GOSUB 9999".into(),
                "RUN".into(),
                "GOSUB 9999".into(),
                "PRINT QQ9(\"a\")".into(),
            ],
            None,
            "frames".into(),
        ),
        // direct-mode statements typed at a breakpoint that was taken with a cap (nearly) reached:
        // the interrupted program's frames / loops are kept there, so the caps apply to the sum
        "x-stop-gosub" => (
            vec![
                "5 DEF FNQ(X) = X + 1".into(),
                "10 Z = 0 : GOSUB 100 : PRINT \"done\" : END".into(),
                format!("100 Z = Z + 1 : IF Z < {} THEN GOSUB 100", n),
                "105 STOP".into(),
                "110 RETURN".into(),
                "200 STOP".into(),
                "210 PRINT 1 / 0".into(),
                "220 GOSUB 200".into(),
                "RUN".into(),
                "GOSUB 200".into(),
                "PRINT FNQ(1)".into(),
                "GOSUB 210".into(),
                "GOSUB 220".into(),
                "GOSUB 200".into(),
                "PRINT FNQ(FNQ(1))".into(),
                "CONT".into(),
            ],
            None,
            "frames".into(),
        ),
        "x-stop-for" => {
            let mut l = String::from("10 ");
            for i in 1..=n {
                l.push_str(&format!("FOR C{} = 1 TO 1 : ", i));
            }
            l.push_str("STOP : PRINT \"in\"");
            (vec![l, "20 FOR K1 = 1 TO 2 : FOR K2 = 1 TO 2 : STOP".into(), "RUN".into(), "FOR Q1 = 1 TO 2".into(), "FOR Q2 = 1 TO 2".into(), "GOTO 20".into(), "FOR Q3 = 1 TO 2".into(), "CONT".into()], None, "loops".into())
        }
        "dim1" => (vec![format!("DIM V({})", n)], if n + 1 > ARRAY_CAP { Some(ErrKind::ArrayTooLarge) } else { None }, "cells".into()),
        "dim2" => (vec![format!("DIM V({},99)", n)], if (n + 1) * 100 > ARRAY_CAP { Some(ErrKind::ArrayTooLarge) } else { None }, "cells".into()),
        "implicit" => {
            let subs = vec!["1"; n].join(",");
            (vec![format!("PRINT V({})", subs)], if 11usize.checked_pow(n as u32).map(|c| c > ARRAY_CAP).unwrap_or(true) { Some(ErrKind::ArrayTooLarge) } else { None }, "cells".into())
        }
        _ => {
            let subs = vec!["1"; n].join(",");
            (vec![format!("V$({}) = \"x\"", subs)], if 11usize.checked_pow(n as u32).map(|c| c > ARRAY_CAP).unwrap_or(true) { Some(ErrKind::ArrayTooLarge) } else { None }, "cells".into())
        }
    }
}

fn check_cap(c: &CapCase, rec: &mut CaseRec) -> Verdict {
    let (lines, want, _) = cap_script(c);
    let mut sess = Sess::new();
    let mut last: Option<ErrKind> = None;
    let mut out = vec![];
    for l in &lines {
        let mut b = 100_000u64;
        // check the invariants after every single call
        let r = match sess.line(l) {
            Ok(r) => r,
            Err(Crash(p)) => return Verdict::fail("panic", format!("{:?}: {}", l, p)),
        };
        out.extend(r.out.clone());
        last = r.err.as_ref().map(|e| e.kind);
        loop {
            let snap = sess.interp.verif_snapshot();
            if let Err((k, d)) = check_invariants(&snap, None) {
                return Verdict::fail(k, format!("{:?} n={}: {}", c.kind, c.n, d));
            }
            if sess.state().map(|s| s != St::Running).unwrap_or(true) || b == 0 {
                break;
            }
            b -= 1;
            match sess.cont() {
                Ok(r) => {
                    out.extend(r.out.clone());
                    if let Some(e) = &r.err {
                        last = Some(e.kind);
                    }
                }
                Err(Crash(p)) => return Verdict::fail("panic", format!("{:?}: {}", l, p)),
            }
        }
    }
    if !c.kind.starts_with("x-") && last != want {
        let key = if want.is_some() { "cap-exceeded-without-out-of-memory" } else { "out-of-memory-below-cap" };
        return Verdict::fail(key, format!("{} with n={}: expected {:?}, got {:?} (output {:?})", c.kind, c.n, want, last, printed(&out)));
    }
    let mut o = vec![];
    let mut b = 20u64;
    match sess.line_and_run("PRINT 7", &mut b, &mut o) {
        Ok(RunStop::Idle) if printed(&o) == "7\n" => {}
        other => return Verdict::fail("unusable-after-cap", format!("{:?}", other.map_err(|c| c.0))),
    }
    rec.nontrivial = Some(hash_of(&(c.kind.clone(), c.n)));
    Verdict::Pass
}

const CAP_CASES: &[(&str, &[u32])] = &[
    ("gosub", &[1, 2, 30, 31, 32, 33, 34, 40, 100]),
    ("for", &[1, 2, 30, 31, 32, 33, 34, 40]),
    ("for-reenter", &[10, 100, 1000, 5000]),
    ("loops-abandoned", &[10, 100, 1000]),
    ("dim1", &[0, 1, 9998, 9999, 10000, 10001, 65535, 4294967295]),
    ("dim2", &[0, 98, 99, 100, 101, 4294967295]),
    ("implicit", &[1, 2, 3, 4, 5, 19, 20, 40]),
    ("implicit-write", &[1, 2, 3, 4, 5, 19, 20]),
    ("x-for-badvar", &[1, 30, 31, 32, 33]),
    ("x-for-badlimit", &[1, 30, 31, 32, 33]),
    ("x-gosub-undef", &[1, 30, 31, 32, 33]),
    ("x-stop-gosub", &[1, 29, 30, 31, 32]),
    ("x-stop-for", &[1, 29, 30, 31, 32]),
];

pub fn property() -> Property {
    let total: usize = CAP_CASES.iter().map(|(_, v)| v.len()).sum();
    let families: Vec<Box<dyn Family>> = vec![
        enum_family(
            "cap-scripts",
            true,
            move |_| total as u64,
            |_, i| {
                let mut i = i as usize;
                for (k, v) in CAP_CASES {
                    if i < v.len() {
                        return CapCase { kind: k.to_string(), n: v[i] };
                    }
                    i -= v.len();
                }
                unreachable!()
            },
            check_cap,
        ),
        prop_family("typing-sessions", 80_000, 1_000_000, |_| typing_session(), check_session),
        prop_family("loop-sessions", 60_000, 800_000, |_| loop_session(), check_session),
        prop_family("structured-sessions", 50_000, 1_000_000, |_| structured_session(), check_session),
        prop_family("hostile-sessions", 80_000, 1_000_000, |_| hostile_session(), check_session),
    ];
    Property {
        id: "C16",
        rule: "cap-scripts (exhaustive list): GOSUB recursion to depth 1..100, 1..40 nested FOR loops over distinct variables, a FOR pair re-entered by GOTO up to 5000 times, loops abandoned by GOTO/RETURN up to 1000 times, DIM with 0..2^32-1 x {1, 100} cells around the 10000-cell cap, implicit arrays with 1..40 subscripts read and written; ill-typed FORs and jumps to undefined lines executed with 30-33 loops / frames open (only the invariants are judged there); GOSUB, FOR and user-function calls typed in direct mode at a STOP breakpoint taken with 29-32 frames / loops open, whose subroutines stop or fail before returning (invariants only); the error (OUT OF MEMORY STACK OVERFLOW / ARRAY TOO LARGE) must appear exactly when the stated cap is exceeded and the interpreter must stay usable. typing-sessions: ill-typed writes through LET, cell assignment, FOR variable, NEXT, READ, INPUT replies and parameter binding with $ and non-$ names. loop-sessions: FOR / NEXT / GOSUB / RETURN typed one statement per turn at the prompt, mixed with program lines whose THEN and ELSE clauses both open loops and counter-guarded re-entries. structured-/hostile-sessions: C01's generators. Invariant after every host call (snapshot hook): <= 32 frames; <= 32 open loops over pairwise distinct variables, each a FOR variable that occurred in the session; every array's cell count equals the product of its dimensions and is <= 10000; every scalar, array and frame binding has the kind its name's suffix demands. Non-trivial: the session reached depth >= 31, >= 31 open loops, an array of >= 5000 cells or a rejected ill-typed write; distinct by call-kind/outcome sequence.",
        assumptions: vec!["FOR variables of a session are extracted with the tokenizer hook (instrumentation only)"],
        fuzz: Some(FuzzSpec { target: "c16_invariants", runs: 150_000, max_len: 2048, verdict: crate::fuzz::c16_verdict }),
        families,
        prelude: None,
        epilogue: None,
    }
}
