//! C14 — LIST output reloads to the same program.

use crate::ast::render_program;
use crate::core::*;
use crate::gen::{self, GenCfg};
use crate::sess::*;
use crate::textgen::*;
use proptest::prelude::*;
use serde::{Deserialize, Serialize};

#[derive(Serialize, Deserialize, Debug, Clone)]
pub struct StoreCase {
    /// Lines as typed (each with its own line number).
    pub lines: Vec<String>,
    pub seed: u64,
}

const RUN_BUDGET: u64 = 3000;

/// Everything observable from RUN (with replies "1" to any INPUT) plus the
/// sequence of DATA items READ sees afterwards.
fn behaviour(s: &mut Sess) -> Result<Vec<String>, Crash> {
    let mut log = vec![];
    let mut out = vec![];
    let mut budget = RUN_BUDGET;
    let mut stop = s.line_and_run("RUN", &mut budget, &mut out)?;
    let mut replies = 0;
    loop {
        match stop {
            RunStop::Input if replies < 20 => {
                replies += 1;
                let r = s.reply("1")?;
                out.extend(r.out);
                stop = s.run_on(&mut budget, &mut out)?;
            }
            _ => break,
        }
    }
    for o in &out {
        log.push(format!("{:?}", o));
    }
    match &stop {
        RunStop::Error(e) => log.push(format!("error {:?} line {:?}", e.kind, e.line)),
        other => log.push(format!("{:?}", other)),
    }
    // leave whatever state the run is in
    match s.state()? {
        St::Idle => {}
        _ => {
            s.brk()?;
        }
    }
    // DATA items as READ sees them
    let r = s.line("RESTORE")?;
    if let Some(e) = r.err {
        log.push(format!("restore error {:?}", e.kind));
    }
    for _ in 0..200 {
        let mut o = vec![];
        let mut b = 50u64;
        match s.line_and_run("READ Q9$ : PRINT \"[\"; Q9$; \"]\"", &mut b, &mut o)? {
            RunStop::Idle => log.push(format!("data {}", printed(&o))),
            RunStop::Error(e) => {
                log.push(format!("data-end {:?}", e.kind));
                break;
            }
            other => {
                log.push(format!("data-stop {:?}", other));
                break;
            }
        }
    }
    Ok(log)
}

pub fn check_store(c: &StoreCase, rec: &mut CaseRec) -> Verdict {
    check(c, rec)
}

fn check(c: &StoreCase, rec: &mut CaseRec) -> Verdict {
    let mut a = Sess::new();
    a.randomize(c.seed);
    let mut stored_any = false;
    // A stored program may have been reached through edits: for some lines an earlier,
    // different definition of the same number is typed first, and an extra DATA line is
    // added and deleted again, a READ is typed at the prompt in between, and an old definition may be listed and deleted before the final one arrives. The final stored program is the same.
    let mut typed: Vec<String> = vec![];
    for (i, l) in c.lines.iter().enumerate() {
        let digits: String = l.trim_start().chars().take_while(|ch| ch.is_ascii_digit()).collect();
        let h = splitmix(c.seed ^ hash_str(l) ^ i as u64);
        if !digits.is_empty() && digits.len() < 19 && h % 2 == 0 {
            typed.push(format!("{} {}", digits, ["DATA \"stale\", 99", "REM stale", "PRINT \"old\" : DATA 1,2", "READ Q : DATA \"s\""][(h / 2 % 4) as usize]));
            // sometimes the old definition is listed and / or deleted before the final one is typed
            if (h / 8) % 2 == 0 {
                typed.push("LIST".to_string());
            }
            if (h / 16) % 2 == 0 {
                typed.push(digits.clone());
            }
        }
        typed.push(l.clone());
        if h % 3 == 1 {
            // a READ typed at the prompt between edits (whatever it finds, or OUT OF DATA)
            typed.push("READ Q9$".to_string());
        }
        if !digits.is_empty() && digits.len() < 19 && h % 5 == 0 {
            if let Ok(n) = digits.parse::<u64>() {
                if let Some(m) = n.checked_add(1) {
                    if !c.lines.iter().any(|x| x.trim_start().starts_with(&format!("{} ", m)) || x.trim_start() == m.to_string()) {
                        typed.push(format!("{} DATA \"gone\", 5", m));
                        typed.push(format!("{}", m));
                    }
                }
            }
        }
    }
    for l in &typed {
        match a.line(l) {
            Err(Crash(p)) => return Verdict::fail("panic-entering", format!("{:?}: {}", l, p)),
            Ok(r) => {
                if r.err.is_none() {
                    stored_any = true;
                }
            }
        }
        // a line without a number may have started a program run: stop it
        match a.state() {
            Ok(St::Idle) => {}
            Ok(_) => {
                let _ = a.brk();
            }
            Err(Crash(p)) => return Verdict::fail("panic-entering", p),
        }
    }
    let l1 = match a.list() {
        Ok(l) => l,
        Err(Crash(p)) => return Verdict::fail("panic-listing", p),
    };
    if l1.is_empty() {
        rec.class("nothing-stored");
        let _ = stored_any;
        return Verdict::Pass;
    }
    let mut b = Sess::new();
    b.randomize(c.seed);
    for l in &l1 {
        let text = l.strip_suffix('\n').unwrap_or(l);
        match b.line(text) {
            Err(Crash(p)) => return Verdict::fail("panic-reloading", format!("{:?}: {}", text, p)),
            Ok(r) => {
                if let Some(e) = r.err {
                    return Verdict::fail("listed-line-rejected", format!("typed {:?}; LIST line {:?} is rejected: {}", c.lines, text, e.text));
                }
            }
        }
    }
    let l2 = match b.list() {
        Ok(l) => l,
        Err(Crash(p)) => return Verdict::fail("panic-listing", p),
    };
    if l1 != l2 {
        let (x, y) = l1.iter().zip(&l2).find(|(x, y)| x != y).map(|(x, y)| (x.clone(), y.clone())).unwrap_or((format!("{} lines", l1.len()), format!("{} lines", l2.len())));
        let key = if x.contains("DATA") { "list-not-fixed-point-data" } else if x.contains("inf") || x.contains("NaN") { "list-not-fixed-point-nonfinite" } else { "list-not-fixed-point" };
        return Verdict::fail(key, format!("typed {:?}; LIST gives {:?}, reloading that LISTs {:?}", c.lines, x, y));
    }
    let ba = match behaviour(&mut a) {
        Ok(v) => v,
        Err(Crash(p)) => return Verdict::fail("panic-running", format!("{:?}: {}", c.lines, p)),
    };
    let bb = match behaviour(&mut b) {
        Ok(v) => v,
        Err(Crash(p)) => return Verdict::fail("panic-running-reloaded", format!("{:?}: {}", l1, p)),
    };
    if ba != bb {
        let d = ba.iter().zip(&bb).find(|(x, y)| x != y).map(|(x, y)| format!("{:?} vs {:?}", x, y)).unwrap_or_else(|| format!("lengths {} vs {}", ba.len(), bb.len()));
        let key = if d.contains("data") { "data-sequence-differs" } else { "behaviour-differs" };
        return Verdict::fail(key, format!("typed {:?}; listed {:?}; first difference: {}", c.lines, l1, d));
    }
    let typed_differs = c.lines.iter().map(|l| format!("{}\n", l)).collect::<Vec<_>>() != l1;
    let joined = l1.concat();
    let interesting = joined.contains("DATA") || joined.contains('.') || l1.iter().any(|l| l.split(' ').count() >= 3);
    if joined.contains("DATA") {
        rec.class("has-data");
    }
    if joined.contains("REM") {
        rec.class("has-rem");
    }
    if !joined.is_ascii() {
        rec.class("multi-byte");
    }
    rec.nontrivial_if(typed_differs && interesting, hash_str(&joined));
    Verdict::Pass
}

/// Representative spelling of every token class.
const REPS: &[&str] = &[
    "DIM", "LET", "PRINT", "INPUT", "GOTO", "GOSUB", "RETURN", "IF", "THEN", "ELSE", "AND", "OR", "NOT", "END", "STOP", "FOR", "TO", "NEXT",
    "STEP", "READ", "RESTORE", "DEF", "REM", "DATA", ":", ";", ",", "?", "(", ")", "+", "-", "*", "/", "^", "=", "<>", "<", "<=", ">", ">=",
    "X", "A$", "X1", "1", ".5", "1.5", "\"s\"", "\"\"",
];

fn numeral() -> impl Strategy<Value = String> {
    prop_oneof![
        4 => "[0-9]{1,25}",
        2 => "[0-9]{0,20}\\.[0-9]{0,30}",
        2 => "\\.[0-9]{1,30}",
        // fractions so close to one (or to a power of ten) that they are stored rounded up
        1 => "\\.9{15,25}[0-9]{0,4}",
        1 => "[0-9]{0,3}\\.9{15,25}",
        1 => "0{1,5}[0-9]{1,10}",
        1 => "[0-9]{1,10}\\.?0{1,10}",
        1 => "[1-9][0-9]{280,400}",
        1 => "0\\.0{300,340}[1-9]{1,5}",
        1 => "[0-9]{1,3}( [0-9]{1,3}){1,3}",
    ]
}

fn numeral_line() -> impl Strategy<Value = String> {
    (numeral(), numeral(), 0u8..10).prop_map(|(a, b, ctx)| match ctx {
        0 => format!("10 PRINT {}", a),
        1 => format!("10 X = {}", a),
        2 => format!("10 X {}", a),
        3 => format!("10 X1{}", a),
        4 => format!("10 GOTO {}", a),
        5 => format!("10 DATA {}, {}", a, b),
        6 => format!("10 PRINT {};{}", a, b),
        7 => format!("10 PRINT {} + {} * X{}", a, b, a),
        8 => format!("10 A$ {} \"s\" {}", a, b),
        _ => format!("10 IF X = {} THEN {}", a, b),
    })
}

fn data_line() -> impl Strategy<Value = String> {
    let item = prop_oneof![
        3 => "[a-z]{1,6}",
        2 => "-?[0-9]{1,6}(\\.[0-9]{1,4})?",
        2 => "\"[ -!#-~]{0,8}\"",
        1 => "[a-z]{1,4} \"[a-z]{1,4}\"",
        // blanks that are not ASCII in front of / behind an item
        1 => "[\u{a0}\u{3000}\u{2003}]\"[ -!#-~]{0,8}\"",
        1 => "\"[a-z,]{1,5}\"[\u{a0}\u{3000}]",
        1 => "[\u{a0}\u{3000}][a-z0-9]{1,4}[\u{a0}\u{2003}]",
        1 => "[a-z]{1,3}\"[a-z]{0,3}",
        1 => Just("".to_string()),
        1 => "[ -+\\--9;-~]{0,10}",
        1 => Just("é ü".to_string()),
        1 => Just("inf".to_string()),
        1 => Just("1e5".to_string()),
        1 => Just("nan".to_string()),
    ];
    (prop::collection::vec((item, "[ ]{0,2}", "[ ]{0,2}"), 0..6), prop::option::weighted(0.4, "[ -~]{0,12}"), "[ ]{0,2}").prop_map(|(items, rest, sp)| {
        let body: Vec<String> = items.into_iter().map(|(i, a, b)| format!("{}{}{}", a, i, b)).collect();
        let mut s = format!("10 DATA{}{}", sp, body.join(","));
        if let Some(r) = rest {
            s.push(':');
            s.push_str(&r);
        }
        s
    })
}

fn text_line() -> impl Strategy<Value = String> {
    prop_oneof![
        "\\PC{0,20}".prop_map(|t| format!("10 REM{}", t)),
        "[^\"\\p{C}]{0,20}".prop_map(|t| format!("10 PRINT \"{}\"", t)),
        "[^\"\\p{C}]{0,10}".prop_map(|t| format!("10 A$ = \"{}\" + \"{}\" : REM {}", t, t, t)),
    ]
}

pub fn property() -> Property {
    let n = REPS.len() as u64;
    let families: Vec<Box<dyn Family>> = vec![
        enum_family(
            "token-pairs",
            true,
            move |tier| if tier == Tier::Quick { n * n * 2 } else { n * n * n * 2 },
            move |tier, i| {
                let glue = if i % 2 == 0 { " " } else { "" };
                let mut j = i / 2;
                let mut parts = vec![];
                for _ in 0..(if tier == Tier::Quick { 2 } else { 3 }) {
                    parts.push(REPS[(j % n) as usize]);
                    j /= n;
                }
                StoreCase { lines: vec![format!("10 {}", parts.join(glue))], seed: 0 }
            },
            check,
        ),
        enum_family(
            "repo-programs",
            true,
            |_| 2,
            |_, i| {
                let f = ["/repo/programs/chemist.bas", "/repo/programs/hamurabi.bas"][i as usize];
                let t = std::fs::read_to_string(f).unwrap_or_default();
                StoreCase { lines: t.lines().map(|l| l.trim_end_matches('\r').to_string()).collect(), seed: 1 }
            },
            check,
        ),
        prop_family("numerals", 120_000, 1_500_000, |_| numeral_line().prop_map(|l| StoreCase { lines: vec![l], seed: 0 }), check),
        prop_family("data-lines", 120_000, 1_500_000, |_| data_line().prop_map(|l| StoreCase { lines: vec![l], seed: 0 }), check),
        prop_family("text-lines", 60_000, 500_000, |_| text_line().prop_map(|l| StoreCase { lines: vec![l], seed: 0 }), check),
        prop_family(
            "segment-lines",
            60_000,
            800_000,
            |_| prop::collection::vec(super::c12::seg_line(), 1..3).prop_map(|v| StoreCase { lines: v.iter().enumerate().map(|(i, l)| format!("{} {}", 10 * (i + 1), super::c12::base_text(l))).collect(), seed: 0 }),
            check,
        ),
        prop_family(
            "atom-lines",
            160_000,
            2_000_000,
            |_| prop::collection::vec(atom_line(12), 1..4).prop_map(|v| StoreCase { lines: v.into_iter().enumerate().map(|(i, l)| format!("{} {}", 10 * (i + 1), l)).collect(), seed: 0 }),
            check,
        ),
        prop_family(
            "programs",
            25_000,
            400_000,
            |_| (gen::program(GenCfg::C03.with_input()), gen::style(), any::<u64>()).prop_map(|(p, st, seed)| StoreCase { lines: render_program(&p, st), seed }),
            check,
        ),
    ];
    Property {
        id: "C14",
        rule: "Stored programs built from: every ordered pair (thorough: triple) of token-class representatives typed with and without a separating blank (exhaustive); numerals in many spellings (leading dot, leading/trailing zeros, up to 400 digits, tiny fractions, spaced digits) in 10 contexts incl. directly after an identifier; DATA statements with quoted / bare / numeric / empty / quote-containing / inf-nan-exponent items, items wrapped in non-ASCII blanks (no-break, ideographic, em space), odd spacing and trailing statements; REM tails and strings with arbitrary Unicode; random atom lines; the token-dense segment lines of C12 (identifiers over every letter, tight digit-letter-sign-digit runs such as 5e-3, spaced operators, DATA chunks, REM tails); structured programs from the grammar rendered with random spacing/case; the repo's two sample programs. Oracle: LIST of the original == LIST after typing that listing into a fresh interpreter (every listed line must be accepted), then RUN of both (same seed, reply 1 to INPUTs, 3000-turn budget) gives identical output records and outcome, and RESTORE + repeated READ into a string variable yields the identical DATA item sequence. Non-trivial: the listing differs from the typed text and contains DATA, a decimal point or >= 3 tokens; distinct by listing.",
        assumptions: vec!["behaviour under RUN is compared up to a 3000-turn budget"],
        fuzz: Some(FuzzSpec { target: "c14_roundtrip", runs: 300_000, max_len: 512, verdict: crate::fuzz::c14_verdict }),
        families,
        prelude: None,
        epilogue: None,
    }
}
