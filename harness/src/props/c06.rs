//! C06 — the static checker and the interpreter agree on what is an error.

use crate::ast::*;
use crate::core::*;
use crate::gen::{self, GenCfg};
use crate::run::*;
use crate::sess::*;
use abasic_core::{DiagnosticMessage, SourceFileAnalyzer};
use proptest::prelude::*;
use serde::{Deserialize, Serialize};

pub const BUDGET: u64 = 300;

#[derive(Serialize, Deserialize, Debug, Clone)]
pub struct Damage {
    pub line: u16,
    pub kind: u8,
    pub pos: u16,
}

#[derive(Serialize, Deserialize, Debug, Clone)]
pub struct AgreeCase {
    pub prog: Program,
    pub damage: Vec<Damage>,
    pub seed: u64,
}

/// Analyzer verdict per file line: the error text, if any.
fn analyze(lines: &[String]) -> Result<Vec<Option<String>>, String> {
    let text = lines.join("\n");
    let a = catch(|| SourceFileAnalyzer::analyze(text))?;
    let mut v = vec![None; lines.len()];
    for m in a.messages() {
        if let DiagnosticMessage::Error(l, e) = m {
            if *l < v.len() && v[*l].is_none() {
                v[*l] = Some(e.to_string());
            }
        }
    }
    Ok(v)
}

/// As `analyze`, with the file listing the lines in a shuffled order (a program is
/// its numbered lines, however the file arranges them); verdicts come back per line.
fn analyze_shuffled(lines: &[String], seed: u64) -> Result<Vec<Option<String>>, String> {
    let n = lines.len();
    let mut order: Vec<usize> = (0..n).collect();
    for i in (1..n).rev() {
        let j = (splitmix(seed ^ (i as u64).wrapping_mul(0x9E37)) % (i as u64 + 1)) as usize;
        order.swap(i, j);
    }
    let file: Vec<String> = order.iter().map(|&i| lines[i].clone()).collect();
    let v = analyze(&file)?;
    let mut back = vec![None; n];
    for (pos, &i) in order.iter().enumerate() {
        back[i] = v[pos].clone();
    }
    Ok(back)
}

fn crunch_upper(s: &str) -> String {
    s.chars().filter(|c| !c.is_ascii_whitespace()).map(|c| c.to_ascii_uppercase()).collect()
}

/// A line is straight-line if it contains no conditional, control transfer,
/// INPUT, function definition or call (decided conservatively on the text).
fn straight_line(statement_text: &str) -> bool {
    let c = crunch_upper(statement_text);
    !["IF", "GOTO", "GOSUB", "RETURN", "NEXT", "END", "STOP", "INPUT", "DEF", "THEN", "ELSE", "QQ", "KK", "JJ", "ZZ$"].iter().any(|k| c.contains(k))
}

fn damage_text(line: &str, d: &Damage) -> String {
    // operates on blank-separated words of the canonical rendering (after the line number)
    let mut words: Vec<String> = line.split(' ').map(|s| s.to_string()).collect();
    if words.len() < 2 {
        return line.to_string();
    }
    let n = words.len() - 1;
    let i = 1 + idx(d.pos, n);
    // words put in place of / next to another one: array cells and calls where a
    // plain name stands, values of the other kind, stray punctuation and keywords
    const SUBST: &[&str] = &["VV(1)", "K$(2)", "C", "C$", "1", "\"s\"", "(", ")", ",", ";", "=", "+", "-", "TO", "STEP", "THEN", "ELSE", "QQ(1)", "NOT", ":", "QQ(1,2)", "JJ(1)", "ZZ$(1)", "KK(1)"];
    match d.kind % 8 {
        5 | 6 => {
            words[i] = SUBST[(d.line as usize / 7 + d.pos as usize) % SUBST.len()].to_string();
        }
        7 => {
            words.insert(i, SUBST[(d.line as usize / 7 + d.pos as usize) % SUBST.len()].to_string());
        }
        0 => {
            words.remove(i);
        }
        1 => {
            let w = words[i].clone();
            words.insert(i, w);
        }
        2 => {
            if i + 1 < words.len() {
                words.swap(i, i + 1);
            }
        }
        3 => words.truncate(i),
        _ => {
            // change the kind of an identifier: add or strip a `$`
            let w = &mut words[i];
            if !w.is_empty() && w.chars().all(|c| c.is_ascii_digit()) {
                // a numeral (jump target, bound, subscript) gets a fractional part
                w.push_str(if d.pos % 2 == 0 { ".5" } else { ".0" });
            } else if w.ends_with('$') {
                w.pop();
            } else if w.chars().all(|c| c.is_ascii_alphanumeric()) && w.chars().next().map(|c| c.is_ascii_alphabetic()).unwrap_or(false) {
                w.push('$');
            }
        }
    }
    if words.len() < 2 {
        return line.to_string();
    }
    words.join(" ")
}

const FORBIDDEN: &[ErrKind] = &[
    ErrKind::SyntaxTokenization,
    ErrKind::SyntaxUnexpectedToken,
    ErrKind::SyntaxExpectedToken,
    ErrKind::SyntaxUnexpectedEnd,
    ErrKind::TypeMismatch,
    ErrKind::UndefinedStatement,
];

fn has_nested_if_with_two_else(line: &str) -> bool {
    let c = crunch_upper(line);
    c.matches("ELSE").count() >= 2 && c.matches("THENIF").count() >= 1
}

/// The failing line is a DEF whose body mentions a function that is only
/// defined on a later line (the analyzer reads DEF bodies in file order and
/// takes the not-yet-defined name for an array).
fn forward_function_reference(line: &str, lines: &[String]) -> bool {
    let num = |l: &str| l.trim_start().chars().take_while(|c| c.is_ascii_digit()).collect::<String>().parse::<u64>().ok();
    let Some(n) = num(line) else { return false };
    let c = crunch_upper(line);
    let digits = n.to_string();
    if !c[digits.len().min(c.len())..].starts_with("DEF") {
        return false;
    }
    let body = c.splitn(2, '=').nth(1).unwrap_or("").to_string();
    for name in ["QQ", "KK", "JJ", "ZZ$"] {
        if body.contains(&format!("{}(", name)) {
            // where is it defined?
            let later = lines.iter().any(|l| {
                let cl = crunch_upper(l);
                num(l).map(|m| m > n).unwrap_or(false) && cl.contains(&format!("DEF{}(", name))
            });
            if later {
                return true;
            }
        }
    }
    false
}

/// The property speaks of programs "whose function definitions are each unique and
/// executed before any use". True when the text breaks that precondition: a function is
/// defined twice, or called (outside its own DEF head) at a place that precedes its
/// definition in line order - damage can put a call or a second DEF anywhere.
fn breaks_function_precondition(lines: &[String]) -> bool {
    let num = |l: &str| l.trim_start().chars().take_while(|c| c.is_ascii_digit()).collect::<String>().parse::<u64>().ok();
    let mut ordered: Vec<(u64, String)> = lines.iter().filter_map(|l| num(l).map(|n| (n, crunch_upper(l)))).collect();
    ordered.sort_by_key(|(n, _)| *n);
    for name in ["QQ", "KK", "JJ", "ZZ$"] {
        let head = format!("DEF{}(", name);
        let call = format!("{}(", name);
        let mut defs = 0;
        let mut def_pos: Option<(usize, usize)> = None;
        for (li, (_, text)) in ordered.iter().enumerate() {
            for (off, _) in text.match_indices(&head) {
                defs += 1;
                if def_pos.is_none() {
                    def_pos = Some((li, off));
                }
            }
        }
        if defs > 1 {
            return true;
        }
        let Some((dl, doff)) = def_pos else { continue };
        for (li, (_, text)) in ordered.iter().enumerate() {
            for (off, _) in text.match_indices(&call) {
                // the occurrence inside the DEF head itself is the definition
                let is_head = off >= 3 && text[..off].ends_with("DEF");
                // a call inside a DEF body is a use only when that function is called
                // (a body may mention a function defined further down: known finding K3)
                let stmt_start = text[..off].rfind(':').map(|p| p + 1).unwrap_or(0);
                let in_def_body = text[stmt_start..off].contains("DEF");
                if !is_head && !in_def_body && (li, off) < (dl, doff) {
                    return true;
                }
            }
        }
    }
    false
}

/// One execution; returns the forbidden error it ended with, if any.
fn execute(lines: &[String], def_lines: usize, start: Option<u64>, env: u8, seed: u64) -> Result<Option<ErrInfo>, Crash> {
    let mut s = Sess::new();
    s.randomize(seed);
    if s.enter_program(lines)?.is_err() {
        return Ok(None);
    }
    let replies: Vec<String> = (0..40).map(|i| if (i + env as usize) % 3 == 0 { "x".to_string() } else { "1".to_string() }).collect();
    let t = match start {
        None => drive(&mut s, "RUN", &replies, BUDGET, &mut NoHost)?,
        Some(n) => {
            // execute the DEF lines first (the property's precondition), then start at line n
            let mut out = vec![];
            let mut b = def_lines as u64 * 3 + 1;
            let stop = s.line_and_run("RUN", &mut b, &mut out)?;
            if let RunStop::Error(e) = stop {
                return Ok(if FORBIDDEN.contains(&e.kind) { Some(e) } else { None });
            }
            if s.state()? != St::Idle {
                s.brk()?;
            }
            if env == 1 {
                let mut o = vec![];
                let mut b2 = 100u64;
                s.line_and_run("C = 1 : J = 1 : K = 1 : Q = 1 : V = 1 : W = 1 : Y = 1 : C1 = 1 : K2 = 1 : C$ = \"a\" : J$ = \"a\" : K$ = \"b\" : Q$ = \"a\" : W1$ = \"a\"", &mut b2, &mut o)?;
            } else if env == 2 {
                let mut o = vec![];
                let mut b2 = 100u64;
                s.line_and_run("C = -1 : J = 2 : K = 0.5 : Q = 100 : V = -7 : C$ = \"\" : J$ = \"zz\" : K$ = \"A\"", &mut b2, &mut o)?;
            }
            if s.interp.verif_line_token_count(n).is_none() {
                // the line did not survive the damage: nothing to start at
                return Ok(None);
            }
            drive(&mut s, &format!("GOTO {}", n), &replies, BUDGET, &mut NoHost)?
        }
    };
    if let End::Error(k, l) = &t.end {
        // an error without a line belongs to the host's own immediate statement, not to the program
        if FORBIDDEN.contains(k) && l.is_some() {
            return Ok(Some(ErrInfo { kind: *k, line: *l, text: format!("{:?} IN {:?}", k, l), caret: vec![], located: l.is_some() }));
        }
    }
    Ok(None)
}

fn check(c: &AgreeCase, rec: &mut CaseRec) -> Verdict {
    let mut lines = render_program(&c.prog, Style::PLAIN);
    for d in &c.damage {
        if lines.is_empty() {
            break;
        }
        let i = idx(d.line, lines.len());
        lines[i] = damage_text(&lines[i], d);
    }
    // one case in three presents the lines to the analyzer in a shuffled file order
    let shuffled = c.seed % 3 == 0 && lines.len() > 1;
    let verdicts = match if shuffled { analyze_shuffled(&lines, c.seed) } else { analyze(&lines) } {
        Ok(v) => v,
        Err(p) => return Verdict::fail("analyzer-panic", format!("{} on {:?}", p, lines)),
    };
    let accepted = verdicts.iter().all(|v| v.is_none());
    let show = |why: String| format!("{}; program {:?}", why, lines);
    // direction 2: a rejected straight-line line fails when executed on its own
    let mut dir2 = 0;
    for (i, v) in verdicts.iter().enumerate() {
        let Some(err) = v else { continue };
        let line = &lines[i];
        let stmt_text = line.trim_start().trim_start_matches(|ch: char| ch.is_ascii_digit());
        if !straight_line(stmt_text) {
            continue;
        }
        let mut s = Sess::new();
        match s.line(line) {
            Err(Crash(p)) => return Verdict::fail("panic", show(p)),
            Ok(r) => {
                if r.err.is_some() {
                    // not even storable: the interpreter rejects it as well
                    dir2 += 1;
                    continue;
                }
            }
        }
        let t = match drive(&mut s, "RUN", &[], BUDGET, &mut NoHost) {
            Ok(t) => t,
            Err(Crash(p)) => return Verdict::fail("panic", show(p)),
        };
        match &t.end {
            End::Error(..) => dir2 += 1,
            other => {
                return Verdict::fail(
                    "valid-straight-line-statement-rejected",
                    show(format!("the analyzer reports {:?} on line {:?}, but running that line alone ends with {:?} (output {:?})", err, line, other, t.printed())),
                )
            }
        }
    }
    // direction 1: an accepted program never fails with a syntax error, type mismatch or undefined line
    let mut executions = 0;
    let precondition_broken = breaks_function_precondition(&lines);
    if precondition_broken {
        rec.class("function-precondition-broken(direction-1-skipped)");
    }
    if accepted && !lines.is_empty() && !precondition_broken {
        let def_lines = c.prog.lines.iter().take_while(|l| l.stmts.iter().all(|s| matches!(s, Stmt::Def { .. }))).count();
        let mut starts: Vec<Option<u64>> = vec![None];
        for l in c.prog.lines.iter().take(24) {
            starts.push(Some(l.number));
        }
        for st in starts {
            for env in 0..3u8 {
                if st.is_none() && env > 0 {
                    continue;
                }
                executions += 1;
                match execute(&lines, def_lines, st, env, c.seed) {
                    Err(Crash(p)) => return Verdict::fail("panic", show(p)),
                    Ok(None) => {}
                    Ok(Some(e)) => {
                        let at = e.line.and_then(|n| lines.iter().find(|l| l.starts_with(&format!("{} ", n))));
                        let key = if e.kind == ErrKind::SyntaxUnexpectedToken && at.map(|l| has_nested_if_with_two_else(l)).unwrap_or(false) {
                            "nested-if-double-else"
                        } else if at.map(|l| forward_function_reference(l, &lines)).unwrap_or(false) {
                            "forward-function-reference-in-def"
                        } else if e.kind == ErrKind::TypeMismatch {
                            "accepted-program-type-mismatch"
                        } else if e.kind == ErrKind::UndefinedStatement {
                            "accepted-program-undefined-statement"
                        } else {
                            "accepted-program-syntax-error"
                        };
                        return Verdict::fail(key, show(format!("the analyzer reports no error, but starting at {:?} (environment {}) execution fails with {}", st, env, e.text)));
                    }
                }
            }
        }
    }
    if accepted {
        rec.class("accepted");
    } else {
        rec.class("rejected");
    }
    if dir2 > 0 {
        rec.class("rejected-straight-line-confirmed");
    }
    if !c.damage.is_empty() {
        rec.class("damaged");
    }
    if shuffled {
        rec.class("file-order-shuffled");
    }
    rec.extra_evals = executions as u64 + dir2 as u64;
    rec.nontrivial_if((accepted && executions >= 4) || dir2 > 0, hash_str(&lines.join("\n")));
    Verdict::Pass
}

/// A single statement whose expression is nested `depth` levels deep around a small core:
/// the boundary of the nesting cap (100), where analyzer and interpreter must still agree.
#[derive(Debug, Clone, Serialize, Deserialize)]
pub struct DepthCase {
    pub depth: u32,
    pub core: u8,
    pub wrap: u8,
    pub stmt: u8,
}

fn depth_case_program(c: &DepthCase) -> Program {
    let one = || Expr::Num(1.0);
    let mut e = match c.core % 8 {
        0 => one(),
        1 => Expr::var("X"),
        2 => Expr::Cell("A".into(), vec![one()]),
        3 => Expr::Cell("C".into(), vec![one(), Expr::Num(2.0)]),
        4 => Expr::Abs(Box::new(one())),
        5 => Expr::bin(BinOp::Add, Expr::Cell("A".into(), vec![Expr::Num(0.0)]), one()),
        6 => Expr::un(UnOp::Neg, Expr::Cell("A".into(), vec![one()])),
        _ => Expr::Rnd(Box::new(one())),
    };
    for k in 0..c.depth {
        e = match c.wrap % 4 {
            0 => Expr::Paren(Box::new(e)),
            1 => Expr::Abs(Box::new(e)),
            2 => Expr::Cell("A".into(), vec![e]),
            _ => {
                if k % 2 == 0 {
                    Expr::Paren(Box::new(e))
                } else {
                    Expr::Cell("A".into(), vec![e])
                }
            }
        };
    }
    let stmt = match c.stmt % 3 {
        0 => Stmt::Print(vec![PrintItem::Expr(e)]),
        1 => Stmt::Let { target: LValue::Var("X".into()), value: e, with_let: false },
        _ => Stmt::Let { target: LValue::Cell("A".into(), vec![e]), value: Expr::Num(1.0), with_let: false },
    };
    Program { lines: vec![Line { number: 10, stmts: vec![stmt] }] }
}

fn check_depth(c: &DepthCase, rec: &mut CaseRec) -> Verdict {
    let v = check(&AgreeCase { prog: depth_case_program(c), damage: vec![], seed: 1 }, rec);
    rec.class("nesting-boundary");
    v
}

fn damage() -> impl Strategy<Value = Damage> {
    (any::<u16>(), 0u8..8, any::<u16>()).prop_map(|(line, kind, pos)| Damage { line, kind, pos })
}

fn prog_case(error_weight: u32, damaged: bool) -> impl Strategy<Value = AgreeCase> {
    let cfg = GenCfg { max_blocks: 8, error_weight, defs_first: true, allow_wild: false, ..GenCfg::C03.with_input() };
    (gen::program_defs_first(cfg), prop::collection::vec(damage(), if damaged { 1..3 } else { 0..1 }), any::<u64>()).prop_map(move |(prog, damage, seed)| AgreeCase { prog, damage: if damaged { damage } else { vec![] }, seed })
}

fn line_case(ill: u32, damaged: bool) -> impl Strategy<Value = AgreeCase> {
    let cfg = GenCfg { error_weight: ill, allow_wild: false, ..GenCfg::C03.with_input() };
    (prop::collection::vec(gen::any_stmt(cfg), 1..4), prop::collection::vec(damage(), if damaged { 1..2 } else { 0..1 }), any::<u64>()).prop_map(move |(stmts, damage, seed)| AgreeCase {
        prog: Program { lines: vec![Line { number: 10, stmts }] },
        damage: if damaged { damage } else { vec![] },
        seed,
    })
}

pub fn property() -> Property {
    let families: Vec<Box<dyn Family>> = vec![
        enum_family(
            "nested-if-double-else-witness",
            true,
            |_| 1,
            |_, _| AgreeCase {
                prog: Program {
                    lines: vec![Line {
                        number: 10,
                        stmts: vec![Stmt::If {
                            cond: Expr::var("C"),
                            then: Branch::Stmt(Box::new(Stmt::If {
                                cond: Expr::var("J"),
                                then: Branch::Stmt(Box::new(Stmt::Print(vec![PrintItem::Expr(Expr::Num(1.0))]))),
                                els: Some(Branch::Stmt(Box::new(Stmt::Print(vec![PrintItem::Expr(Expr::Num(2.0))])))),
                            })),
                            els: Some(Branch::Stmt(Box::new(Stmt::Print(vec![PrintItem::Expr(Expr::Num(3.0))])))),
                        }],
                    }],
                },
                damage: vec![],
                seed: 0,
            },
            check,
        ),
        enum_family(
            "nesting-boundary",
            true,
            |_| 16 * 8 * 4 * 3,
            |_, i| DepthCase { depth: 90 + (i % 16) as u32, core: ((i / 16) % 8) as u8, wrap: ((i / 128) % 4) as u8, stmt: ((i / 512) % 3) as u8 },
            check_depth,
        ),
        prop_family("lines-well-typed", 20_000, 1_000_000, |_| line_case(0, false), check),
        prop_family("lines-ill-typed", 20_000, 1_000_000, |_| line_case(60, false), check),
        prop_family("lines-damaged", 20_000, 1_000_000, |_| line_case(0, true), check),
        prop_family("programs-well-typed", 4_000, 150_000, |_| prog_case(0, false), check),
        prop_family("programs-ill-typed", 3_000, 100_000, |_| prog_case(10, false), check),
        prop_family("programs-damaged", 8_000, 200_000, |_| prog_case(0, true), check),
    ];
    Property {
        id: "C06",
        rule: "Single numbered lines (1-3 statements from every statement template incl. IF/THEN/ELSE, FOR, NEXT, GOTO, GOSUB, READ, DATA, DIM, DEF, INPUT, calls) the nesting boundary (exhaustive: PRINT / assignment / subscripted-target statements whose expression wraps eight small cores - numeral, variable, one- and two-dimensional cells, built-in calls, a sum and a negation of cells - in 90..105 levels of parentheses, ABS calls, subscripts or both alternately, i.e. around the cap of 100 levels that analyzer and interpreter both enforce) and small programs (DEFs first, each function defined at most once; one case in three hands the lines to the analyzer in a shuffled file order) in three modes: well-typed, ill-typed (kind errors injected in operands, subscripts, FOR bounds, assignment targets, arguments) and damaged (a word deleted / duplicated / swapped, the line truncated, a `$` added or stripped, a numeral given a fractional part, or a word replaced by / preceded with an array cell, a call, a value of the other kind, stray punctuation, a keyword, or a call of one of the program's functions with the wrong number or kind of arguments). Direction 1: when the analyzer reports no error and the text keeps the property's precondition (no function defined twice, no call placed before its definition in line order - damage can break it, such cases are counted and skipped), the program is executed by RUN and, after executing its DEF lines, by GOTO to each of its first 24 lines under three variable environments (all unset, all 1/\"a\", mixed) with mixed numeric/text replies, 300 calls each; no execution may end in a syntax error, TYPE MISMATCH or UNDEF'D STATEMENT. Direction 2: every file line the analyzer rejects and whose text contains no IF/THEN/ELSE/GOTO/GOSUB/RETURN/NEXT/END/STOP/INPUT/DEF and no user-function name is entered alone into a fresh interpreter and RUN; it must fail. Each execution is one evaluation. Non-trivial: an accepted program with >= 4 executions, or a rejected straight-line line confirmed; distinct by text.",
        assumptions: vec![
            "branch forcing is by start line and variable environment, not exhaustive over conditions",
            "starting execution at any line after the DEFs ran is a legitimate execution of the program",
        ],
        fuzz: None,
        families,
        prelude: None,
        epilogue: None,
    }
}
