//! C20 — the language server survives any document and reports in-bounds positions.

use crate::core::*;
use crate::textgen::document;
use abasic_core::{DiagnosticMessage, SourceFileAnalyzer};
use proptest::prelude::*;
use serde::{Deserialize, Serialize};
use serde_json::{json, Value};
use std::io::{BufRead, BufReader, Read, Write};
use std::process::{Child, ChildStdin, Command, Stdio};
use std::sync::mpsc::{channel, Receiver};
use std::time::Duration;

#[derive(Serialize, Deserialize, Debug, Clone)]
pub enum Step {
    Open(String),
    Change(String),
    Tokens,
}

#[derive(Serialize, Deserialize, Debug, Clone)]
pub struct LspCase {
    pub steps: Vec<Step>,
}

const URI: &str = "file:///verif/doc.bas";
const ANSWER_TIMEOUT: Duration = Duration::from_secs(60);

struct Server {
    child: Child,
    stdin: ChildStdin,
    rx: Receiver<Value>,
    next_id: i64,
}

fn frame(v: &Value) -> Vec<u8> {
    let body = serde_json::to_vec(v).unwrap();
    let mut out = format!("Content-Length: {}\r\n\r\n", body.len()).into_bytes();
    out.extend(body);
    out
}

enum Wait {
    Got(Value),
    Died(Option<i32>),
    Timeout,
}

impl Server {
    fn start() -> Result<Server, String> {
        let bin = std::env::var("ABV_REPO_BIN_DIR").map_err(|_| "ABV_REPO_BIN_DIR not set".to_string())?;
        let mut child = Command::new(format!("{}/abasic-lsp", bin))
            .env("RUST_BACKTRACE", "0")
            .stdin(Stdio::piped())
            .stdout(Stdio::piped())
            .stderr(Stdio::null())
            .spawn()
            .map_err(|e| format!("spawn abasic-lsp: {}", e))?;
        let stdin = child.stdin.take().unwrap();
        let stdout = child.stdout.take().unwrap();
        let (tx, rx) = channel();
        std::thread::spawn(move || {
            let mut r = BufReader::new(stdout);
            loop {
                let mut len = None;
                loop {
                    let mut line = String::new();
                    match r.read_line(&mut line) {
                        Ok(0) | Err(_) => return,
                        Ok(_) => {}
                    }
                    let l = line.trim_end();
                    if l.is_empty() {
                        break;
                    }
                    if let Some(v) = l.strip_prefix("Content-Length:") {
                        len = v.trim().parse::<usize>().ok();
                    }
                }
                let Some(n) = len else { return };
                let mut buf = vec![0u8; n];
                if r.read_exact(&mut buf).is_err() {
                    return;
                }
                match serde_json::from_slice::<Value>(&buf) {
                    Ok(v) => {
                        if tx.send(v).is_err() {
                            return;
                        }
                    }
                    Err(_) => return,
                }
            }
        });
        Ok(Server { child, stdin, rx, next_id: 1 })
    }

    fn send(&mut self, v: Value) -> bool {
        self.stdin.write_all(&frame(&v)).and_then(|_| self.stdin.flush()).is_ok()
    }

    fn wait(&mut self, pred: impl Fn(&Value) -> bool) -> Wait {
        let start = std::time::Instant::now();
        loop {
            match self.rx.recv_timeout(Duration::from_millis(50)) {
                Ok(v) => {
                    if pred(&v) {
                        return Wait::Got(v);
                    }
                }
                Err(_) => {
                    if let Ok(Some(st)) = self.child.try_wait() {
                        // drain what is left
                        while let Ok(v) = self.rx.try_recv() {
                            if pred(&v) {
                                return Wait::Got(v);
                            }
                        }
                        return Wait::Died(st.code());
                    }
                    if start.elapsed() > ANSWER_TIMEOUT {
                        return Wait::Timeout;
                    }
                }
            }
        }
    }

    fn request(&mut self, method: &str, params: Value) -> Wait {
        let id = self.next_id;
        self.next_id += 1;
        if !self.send(json!({"jsonrpc": "2.0", "id": id, "method": method, "params": params})) {
            return Wait::Died(self.child.try_wait().ok().flatten().and_then(|s| s.code()));
        }
        self.wait(move |v| v.get("id").and_then(|i| i.as_i64()) == Some(id))
    }

    fn notify_expect_diagnostics(&mut self, method: &str, params: Value) -> Wait {
        if !self.send(json!({"jsonrpc": "2.0", "method": method, "params": params})) {
            return Wait::Died(self.child.try_wait().ok().flatten().and_then(|s| s.code()));
        }
        self.wait(|v| v.get("method").and_then(|m| m.as_str()) == Some("textDocument/publishDiagnostics"))
    }
}

impl Drop for Server {
    fn drop(&mut self) {
        let _ = self.child.kill();
        let _ = self.child.wait();
    }
}

fn utf16_len(s: &str) -> u64 {
    if s.is_ascii() {
        return s.len() as u64;
    }
    s.encode_utf16().count() as u64
}

fn byte_to_utf16(line: &str, byte: usize) -> u64 {
    if line.is_ascii() {
        return byte.min(line.len()) as u64;
    }
    // columns are UTF-16 code units; a byte offset inside a character rounds up to the character's end
    let mut units = 0u64;
    for (i, ch) in line.char_indices() {
        if i >= byte {
            break;
        }
        units += ch.len_utf16() as u64;
    }
    units
}

/// (line, severity, message, start column, end column) the analyzer implies for `text`.
fn expected_diagnostics(text: &str) -> Result<Vec<(u64, u64, String, u64, u64)>, String> {
    let lines: Vec<&str> = text.split('\n').collect();
    let a = catch(|| SourceFileAnalyzer::analyze(text.to_string()))?;
    let mut out = vec![];
    for m in a.messages() {
        if let Some((l, r)) = a.source_file_map().map_to_source(m) {
            let (sev, msg) = match m {
                DiagnosticMessage::Warning(_, _, t) => (2u64, t.clone()),
                DiagnosticMessage::Error(_, e) => (1u64, e.to_string()),
            };
            let line = lines.get(l).copied().unwrap_or("");
            out.push((l as u64, sev, msg, byte_to_utf16(line, r.start), byte_to_utf16(line, r.end)));
        }
    }
    out.sort();
    Ok(out)
}

fn check_diagnostics(text: &str, published: &Value) -> Result<usize, (String, String)> {
    let lines: Vec<&str> = text.split('\n').collect();
    let diags = published["params"]["diagnostics"].as_array().cloned().unwrap_or_default();
    let mut got = vec![];
    for d in &diags {
        let (sl, sc, el, ec) = (
            d["range"]["start"]["line"].as_u64().unwrap_or(u64::MAX),
            d["range"]["start"]["character"].as_u64().unwrap_or(u64::MAX),
            d["range"]["end"]["line"].as_u64().unwrap_or(u64::MAX),
            d["range"]["end"]["character"].as_u64().unwrap_or(u64::MAX),
        );
        let ctx = || format!("diagnostic {} for text {:?}", d, text);
        if sl as usize >= lines.len() || el != sl {
            return Err(("diagnostic-line-out-of-document".into(), ctx()));
        }
        let ulen = utf16_len(lines[sl as usize]);
        if !(sc <= ec && ec <= ulen) {
            return Err(("diagnostic-column-out-of-line".into(), format!("{}: line has {} UTF-16 units", ctx(), ulen)));
        }
        got.push((sl, d["severity"].as_u64().unwrap_or(0), d["message"].as_str().unwrap_or("").to_string(), sc, ec));
    }
    got.sort();
    let want = expected_diagnostics(text).map_err(|p| ("analyzer-panic".to_string(), p))?;
    if got != want {
        let key = if got.iter().map(|g| (&g.0, &g.1, &g.2)).eq(want.iter().map(|w| (&w.0, &w.1, &w.2))) { "diagnostic-columns-not-utf16" } else { "diagnostics-differ-from-analyzer" };
        return Err((key.into(), format!("server {:?}, analyzer {:?}, text {:?}", got, want, text)));
    }
    Ok(got.len())
}

fn check_tokens(text: &str, response: &Value, legend_len: u64) -> Result<usize, (String, String)> {
    let lines: Vec<&str> = text.split('\n').collect();
    let Some(data) = response["result"]["data"].as_array() else {
        return Err(("token-response-malformed".into(), format!("{}", response)));
    };
    if data.len() % 5 != 0 {
        return Err(("token-response-malformed".into(), format!("{} numbers", data.len())));
    }
    let (mut line, mut start) = (0u64, 0u64);
    let mut prev_end: Option<(u64, u64)> = None;
    let line_units: Vec<u64> = lines.iter().map(|l| utf16_len(l)).collect();
    for (i, t) in data.chunks(5).enumerate() {
        let v: Vec<u64> = t.iter().map(|x| x.as_u64().unwrap_or(u64::MAX)).collect();
        if v.iter().any(|x| *x == u64::MAX) {
            return Err(("token-response-malformed".into(), format!("token #{} {:?}", i, t)));
        }
        if v[0] > 0 {
            line += v[0];
            start = v[1];
        } else {
            start += v[1];
        }
        let ctx = || format!("token #{} (line {}, start {}, length {}, type {}) for text {:?}", i, line, start, v[2], v[3], text);
        if line as usize >= lines.len() {
            return Err(("token-line-out-of-document".into(), ctx()));
        }
        let ulen = line_units[line as usize];
        if start + v[2] > ulen {
            return Err(("token-out-of-line".into(), format!("{}: line has {} UTF-16 units", ctx(), ulen)));
        }
        if v[2] == 0 {
            return Err(("token-empty".into(), ctx()));
        }
        if let Some((pl, pe)) = prev_end {
            if pl == line && start < pe {
                return Err(("tokens-overlap".into(), ctx()));
            }
        }
        if v[3] >= legend_len {
            return Err(("token-type-outside-legend".into(), ctx()));
        }
        prev_end = Some((line, start + v[2]));
    }
    // and they are the analyzer's tokens, converted to UTF-16 columns
    let a = catch(|| SourceFileAnalyzer::analyze(text.to_string())).map_err(|p| ("analyzer-panic".to_string(), p))?;
    let mut want = vec![];
    for (li, toks) in a.token_types().iter().enumerate() {
        for (_, r) in toks {
            want.push((li as u64, byte_to_utf16(lines[li], r.start), byte_to_utf16(lines[li], r.end) - byte_to_utf16(lines[li], r.start)));
        }
    }
    let mut got = vec![];
    let (mut l, mut s) = (0u64, 0u64);
    for t in data.chunks(5) {
        let v: Vec<u64> = t.iter().map(|x| x.as_u64().unwrap_or(0)).collect();
        if v[0] > 0 {
            l += v[0];
            s = v[1];
        } else {
            s += v[1];
        }
        got.push((l, s, v[2]));
    }
    if got != want {
        return Err(("tokens-not-utf16-or-differ".into(), format!("server {:?}, analyzer (UTF-16) {:?}, text {:?}", got, want, text)));
    }
    Ok(data.len() / 5)
}

fn check(c: &LspCase, rec: &mut CaseRec) -> Verdict {
    let mut srv = match Server::start() {
        Ok(s) => s,
        Err(e) => return Verdict::fail("harness:spawn", e),
    };
    let dead = |what: &str, w: Wait, case: &LspCase| -> Verdict {
        match w {
            Wait::Died(code) => Verdict::fail("server-died", format!("{}: the server exited with {:?}; steps {:?}", what, code, case.steps)),
            Wait::Timeout => Verdict::fail("\u{1}timeout", format!("{}: no answer within {:?}", what, ANSWER_TIMEOUT)),
            Wait::Got(_) => unreachable!(),
        }
    };
    let init = match srv.request("initialize", json!({"processId": null, "rootUri": null, "capabilities": {}})) {
        Wait::Got(v) => v,
        w => return soften(dead("initialize", w, c), rec),
    };
    let legend_len = init["result"]["capabilities"]["semanticTokensProvider"]["legend"]["tokenTypes"].as_array().map(|a| a.len() as u64).unwrap_or(0);
    if legend_len == 0 {
        return Verdict::fail("no-legend", format!("{}", init));
    }
    srv.send(json!({"jsonrpc": "2.0", "method": "initialized", "params": {}}));
    let mut text: Option<String> = None;
    let mut version = 1;
    let (mut ndiag, mut ntok, mut nonascii_diag, mut dup) = (0usize, 0usize, false, false);
    for (si, step) in c.steps.iter().enumerate() {
        match step {
            Step::Open(t) | Step::Change(t) => {
                let w = if text.is_none() || matches!(step, Step::Open(_)) {
                    srv.notify_expect_diagnostics("textDocument/didOpen", json!({"textDocument": {"uri": URI, "languageId": "basic", "version": version, "text": t}}))
                } else {
                    srv.notify_expect_diagnostics("textDocument/didChange", json!({"textDocument": {"uri": URI, "version": version}, "contentChanges": [{"text": t}]}))
                };
                version += 1;
                text = Some(t.clone());
                let published = match w {
                    Wait::Got(v) => v,
                    w => return soften(dead(&format!("step #{} {:?}", si, step), w, c), rec),
                };
                match check_diagnostics(t, &published) {
                    Ok(n) => {
                        ndiag += n;
                        if n > 0 && t.split('\n').any(|l| !l.is_ascii()) {
                            nonascii_diag = true;
                        }
                    }
                    Err((k, d)) => return Verdict::fail(k, d),
                }
                let mut seen = std::collections::HashSet::new();
                for l in t.split('\n') {
                    if let Some((n, _)) = abasic_core::verif_hooks::parse_line_number(l) {
                        if !seen.insert(n) {
                            dup = true;
                        }
                    }
                }
            }
            Step::Tokens => {
                let Some(t) = text.clone() else { continue };
                let resp = match srv.request("textDocument/semanticTokens/full", json!({"textDocument": {"uri": URI}})) {
                    Wait::Got(v) => v,
                    w => return soften(dead(&format!("step #{} tokens", si), w, c), rec),
                };
                match check_tokens(&t, &resp, legend_len) {
                    Ok(n) => ntok += n,
                    Err((k, d)) => return Verdict::fail(k, d),
                }
            }
        }
    }
    match srv.request("shutdown", Value::Null) {
        Wait::Got(_) => {}
        w => return soften(dead("shutdown", w, c), rec),
    }
    srv.send(json!({"jsonrpc": "2.0", "method": "exit"}));
    let start = std::time::Instant::now();
    let code = loop {
        match srv.child.try_wait() {
            Ok(Some(st)) => break st.code(),
            _ => {
                if start.elapsed() > Duration::from_secs(20) {
                    break Some(-1);
                }
                std::thread::sleep(Duration::from_millis(2));
            }
        }
    };
    if code != Some(0) && code != Some(-1) {
        return Verdict::fail("server-exit-status", format!("exit {:?} after shutdown/exit; steps {:?}", code, c.steps));
    }
    if ntok > 0 {
        rec.class("semantic-tokens-checked");
    }
    if nonascii_diag {
        rec.class("diagnostic-in-non-ascii-document");
    }
    if dup {
        rec.class("duplicate-line-number");
    }
    rec.extra_evals = c.steps.len() as u64;
    rec.nontrivial_if(ndiag > 0 && (nonascii_diag || dup), hash_of(&format!("{:?}", c.steps)));
    Verdict::Pass
}

/// A silent server is reported as inconclusive, never as a violation.
fn soften(v: Verdict, rec: &mut CaseRec) -> Verdict {
    if let Verdict::Fail { key, .. } = &v {
        if key == "\u{1}timeout" {
            rec.class("timeout(inconclusive)");
            return Verdict::Pass;
        }
    }
    v
}

fn non_ascii_doc() -> impl Strategy<Value = String> {
    let line = prop_oneof![
        Just("10 PRINT \"é\" + 1".to_string()),
        Just("20 REM ü 😊 : X = ".to_string()),
        Just("30 A$ = \"日本語\" : PRINT A$ B".to_string()),
        Just("40 PRINT \"😊\"; Q9 : GOTO 99".to_string()),
        Just("50 PRINT é".to_string()),
        Just("60 Q$ = \"é\" : NEXT Q$".to_string()),
        Just("10 PRINT \"é".to_string()),
        Just("70 DATA é, \"ü\", 5 : PRINT 1 +".to_string()),
        "[0-9]{1,2} PRINT \"[éü😊a ]{0,5}\" [+;] [A-Z][0-9]?".prop_map(|s| s),
    ];
    prop::collection::vec(line, 1..6).prop_map(|v| v.join("\n"))
}

/// A document typed character by character (every intermediate text of its last line).
fn typing_steps() -> impl Strategy<Value = Vec<Step>> {
    (prop_oneof![non_ascii_doc(), document()], 0usize..3).prop_map(|(doc, _)| {
        let mut lines: Vec<&str> = doc.split('\n').collect();
        let last = lines.pop().unwrap_or("");
        let head = lines.join("\n");
        let mut steps = vec![];
        let mut typed = String::new();
        let chars: Vec<char> = last.chars().take(24).collect();
        for (i, ch) in chars.iter().enumerate() {
            typed.push(*ch);
            let t = if head.is_empty() { typed.clone() } else { format!("{}\n{}", head, typed) };
            steps.push(if i == 0 { Step::Open(t) } else { Step::Change(t) });
            if i % 5 == 4 {
                steps.push(Step::Tokens);
            }
        }
        if steps.is_empty() {
            steps.push(Step::Open(doc.clone()));
        }
        steps.push(Step::Tokens);
        steps
    })
}

fn steps() -> impl Strategy<Value = Vec<Step>> {
    let text = prop_oneof![4 => document(), 3 => non_ascii_doc(), 1 => "\\PC{0,40}", 1 => any::<String>()];
    let step = prop_oneof![3 => text.clone().prop_map(Step::Change), 1 => text.prop_map(Step::Open), 2 => Just(Step::Tokens)];
    prop::collection::vec(step, 1..12)
}

pub fn property() -> Property {
    let families: Vec<Box<dyn Family>> = vec![
        enum_family(
            "fixed-witnesses",
            true,
            |_| 9,
            |_, i| LspCase {
                steps: match i {
                    4 => vec![Step::Open(super::c01::nest_text("unary-run", 40000).join("\n")), Step::Tokens],
                    5 => vec![Step::Open(super::c01::nest_text("not-run", 40000).join("\n")), Step::Tokens],
                    6 => vec![Step::Open(super::c01::nest_text("if-then", 40000).join("\n")), Step::Tokens],
                    7 => vec![Step::Open(super::c01::nest_text("def-chain", 95).join("\n")), Step::Tokens],
                    8 => vec![Step::Open(super::c01::nest_text("subscript", 40000).join("\n")), Step::Change(super::c01::nest_text("abs", 40000).join("\n")), Step::Tokens],
                    0 => vec![Step::Open("10 X = 1\n10".into()), Step::Tokens],
                    1 => vec![Step::Open("10 PRINT \"é\" + 1".into()), Step::Tokens],
                    2 => vec![Step::Open("10 PRINT 1 +\n10 PRINT \"".into()), Step::Change("18446744073709551615 PRINT 1".into()), Step::Tokens],
                    _ => vec![Step::Open(format!("10 PRINT {}1{}", "(".repeat(3000), ")".repeat(3000))), Step::Tokens],
                },
            },
            check,
        ),
        prop_family("sessions", 3_000, 100_000, |_| steps().prop_map(|steps| LspCase { steps }), check),
        prop_family("typing", 800, 30_000, |_| typing_steps().prop_map(|steps| LspCase { steps }), check),
    ];
    Property {
        id: "C20",
        rule: "One abasic-lsp child process (stdio, Content-Length framing) per case: initialize, initialized, then 1-12 steps over {didOpen(text), didChange(full text), semanticTokens/full}, then shutdown and exit. Texts: C05's document generator, documents with non-ASCII text inside strings and REMs before other tokens, raw Unicode, and typing sequences (a document growing character by character through every intermediate text of its last line). Oracle: every step is answered and the process exits 0 after exit (a dead process is a violation, a silent one is inconclusive); each diagnostic lies on an existing line with start <= end <= the line's length in UTF-16 units; semantic tokens decode to ordered, non-overlapping, non-empty tokens inside their lines in UTF-16 units with types inside the legend read from the initialize result; the set of (line, severity, message, columns) equals the in-process analyzer's messages with byte ranges converted to UTF-16 columns, and the tokens equal the analyzer's token ranges converted likewise. Each step is one evaluation. Non-trivial: a session with >= 1 diagnostic in a document with non-ASCII text or a duplicated line number; distinct by steps.",
        assumptions: vec!["only well-formed JSON-RPC traffic is sent", "a server that stays silent for 60 s is counted as inconclusive"],
        fuzz: None,
        families,
        prelude: None,
        epilogue: None,
    }
}
