use crate::core::Property;

pub mod c02;
pub mod c03;
pub mod c18;

pub fn property(id: &str) -> Option<Property> {
    match id {
        "C02" => Some(c02::property()),
        "C03" => Some(c03::property()),
        "C18" => Some(c18::property()),
        _ => None,
    }
}
