use crate::core::Property;

pub mod c01;
pub mod c02;
pub mod c03;
pub mod c04;
pub mod c05;
pub mod c06;
pub mod c07;
pub mod c08;
pub mod c09;
pub mod c10;
pub mod c11;
pub mod c12;
pub mod c13;
pub mod c14;
pub mod c15;
pub mod c16;
pub mod c17;
pub mod c18;
pub mod c19;
pub mod c20;

pub fn property(id: &str) -> Option<Property> {
    match id {
        "C01" => Some(c01::property()),
        "C02" => Some(c02::property()),
        "C03" => Some(c03::property()),
        "C04" => Some(c04::property()),
        "C05" => Some(c05::property()),
        "C06" => Some(c06::property()),
        "C07" => Some(c07::property()),
        "C08" => Some(c08::property()),
        "C09" => Some(c09::property()),
        "C10" => Some(c10::property()),
        "C11" => Some(c11::property()),
        "C12" => Some(c12::property()),
        "C13" => Some(c13::property()),
        "C14" => Some(c14::property()),
        "C15" => Some(c15::property()),
        "C16" => Some(c16::property()),
        "C17" => Some(c17::property()),
        "C18" => Some(c18::property()),
        "C19" => Some(c19::property()),
        "C20" => Some(c20::property()),
        _ => None,
    }
}
