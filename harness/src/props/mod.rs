use crate::core::Property;

pub mod c18;

pub fn property(id: &str) -> Option<Property> {
    match id {
        "C18" => Some(c18::property()),
        _ => None,
    }
}

pub const ALL: &[&str] = &["C18"];
