//! C19 — the Web adapter is a faithful, trap-free wrapper under the page's protocol.
//!
//! The page script (abasic-web/ts/main.ts, class `Interpreter` and the two
//! top-level input handlers) is transliterated line by line below (`Page`);
//! it drives the real `JsInterpreter` natively. A shadow core `Interpreter`
//! receives the same calls and is the differential oracle.

use crate::ast::render_program;
use crate::core::*;
use crate::gen::{self, GenCfg};
use crate::textgen::document;
use abasic_core::{Interpreter, InterpreterOutput, InterpreterState};
use abasic_web::{JsInterpreter, JsInterpreterOutputType, JsInterpreterState};
use proptest::prelude::*;
use serde::{Deserialize, Serialize};

#[derive(Serialize, Deserialize, Debug, Clone)]
pub enum PageEvent {
    Submit(String),
    /// CTRL-C in the input box
    Break,
    /// a pending 5 ms timeout fires
    Tick,
}

#[derive(Serialize, Deserialize, Debug, Clone)]
pub struct PageHistory {
    /// program text loaded at start-up (?p=...), if any
    pub load: Option<String>,
    pub seed: u64,
    pub events: Vec<PageEvent>,
}

#[derive(Debug, Clone, Copy, PartialEq)]
enum JsSt {
    Idle,
    Running,
    AwaitingInput,
    Errored,
}

/// The adapter together with its shadow; every call is mirrored and compared.
struct Pair {
    js: JsInterpreter,
    shadow: Interpreter,
    /// error text the adapter must report until it is taken
    shadow_err: Option<(String, Vec<String>)>,
    calls: u64,
}

type Fault = (String, String);

fn type_name(t: JsInterpreterOutputType) -> &'static str {
    match t {
        JsInterpreterOutputType::Print => "Print",
        JsInterpreterOutputType::Break => "Break",
        JsInterpreterOutputType::Warning => "Warning",
        JsInterpreterOutputType::Trace => "Trace",
        JsInterpreterOutputType::ExtraIgnored => "ExtraIgnored",
        JsInterpreterOutputType::Reenter => "Reenter",
    }
}

fn core_type_name(o: &InterpreterOutput) -> &'static str {
    match o {
        InterpreterOutput::Print(_) => "Print",
        InterpreterOutput::Break(_) => "Break",
        InterpreterOutput::Warning(..) => "Warning",
        InterpreterOutput::Trace(_) => "Trace",
        InterpreterOutput::ExtraIgnored => "ExtraIgnored",
        InterpreterOutput::Reenter => "Reenter",
    }
}

impl Pair {
    fn new(seed: u64) -> Result<Pair, Fault> {
        let js = catch(JsInterpreter::new).map_err(|p| ("adapter-panic".to_string(), format!("new(): {}", p)))?;
        let mut p = Pair { js, shadow: Interpreter::default(), shadow_err: None, calls: 0 };
        catch(|| p.js.randomize(seed)).map_err(|e| ("adapter-panic".to_string(), format!("randomize: {}", e)))?;
        p.shadow.randomize(seed);
        Ok(p)
    }

    fn trap(what: &str, p: String) -> Fault {
        let key = if p.contains("latest_error.is_none()") {
            "assertion-latest-error"
        } else if p.contains("should never be in this state") {
            "reports-new-interpreter-state"
        } else if p.contains("left == right") || p.contains("assertion") {
            "adapter-assertion"
        } else {
            "adapter-panic"
        };
        (key.to_string(), format!("{}: {}", what, p))
    }

    fn get_state(&mut self) -> Result<JsSt, Fault> {
        let st = catch(|| match self.js.get_state() {
            JsInterpreterState::Idle => JsSt::Idle,
            JsInterpreterState::Running => JsSt::Running,
            JsInterpreterState::AwaitingInput => JsSt::AwaitingInput,
            JsInterpreterState::Errored => JsSt::Errored,
        })
        .map_err(|p| Self::trap("get_state", p))?;
        let want = if self.shadow_err.is_some() {
            JsSt::Errored
        } else {
            match self.shadow.get_state() {
                InterpreterState::Idle => JsSt::Idle,
                InterpreterState::Running => JsSt::Running,
                InterpreterState::AwaitingInput => JsSt::AwaitingInput,
                InterpreterState::NewInterpreterRequested => return Err(("harness:shadow".into(), "shadow left in NewInterpreterRequested".into())),
            }
        };
        if st != want {
            return Err(("state-differs".into(), format!("adapter reports {:?}, the core interpreter is {:?}", st, want)));
        }
        Ok(st)
    }

    fn take_latest_output(&mut self) -> Result<Vec<(&'static str, String)>, Fault> {
        let got: Vec<(&'static str, String)> = catch(|| self.js.take_latest_output().into_iter().map(|o| (type_name(o.output_type), o.into_string())).collect()).map_err(|p| Self::trap("take_latest_output", p))?;
        let want: Vec<(&'static str, String)> = self.shadow.take_output().iter().map(|o| (core_type_name(o), o.to_string())).collect();
        if got != want {
            return Err(("output-differs".into(), format!("adapter output {:?}, core output {:?}", got, want)));
        }
        Ok(got)
    }

    fn take_latest_error(&mut self) -> Result<Option<String>, Fault> {
        let got = catch(|| self.js.take_latest_error()).map_err(|p| Self::trap("take_latest_error", p))?;
        let want = self.shadow_err.take();
        match (&got, &want) {
            (None, None) => {}
            (Some(g), Some((first, caret))) => {
                let with_caret = if caret.is_empty() { first.clone() } else { format!("{}\n{}", first, caret.join("\n")) };
                // for continue_evaluating errors the adapter may or may not append the caret lines
                if g != &with_caret && !(caret_optional(&want) && g == first) {
                    return Err(("error-text-differs".into(), format!("adapter error {:?}, expected {:?}", g, with_caret)));
                }
            }
            _ => return Err(("error-presence-differs".into(), format!("adapter error {:?}, core {:?}", got, want))),
        }
        Ok(got)
    }

    fn shadow_after(&mut self) {
        if self.shadow.get_state() == InterpreterState::NewInterpreterRequested {
            self.shadow = Interpreter::default();
        }
    }

    fn start_evaluating(&mut self, line: &str) -> Result<(), Fault> {
        self.calls += 1;
        catch(|| self.js.start_evaluating(line.to_string())).map_err(|p| Self::trap(&format!("start_evaluating({:?})", line), p))?;
        match self.shadow.start_evaluating(line) {
            Ok(()) => self.shadow_after(),
            Err(e) => {
                let caret = e.get_line_with_pointer_caret(&self.shadow, Some(line));
                self.shadow_err = Some((e.to_string(), caret));
            }
        }
        Ok(())
    }

    fn continue_evaluating(&mut self) -> Result<(), Fault> {
        self.calls += 1;
        catch(|| self.js.continue_evaluating()).map_err(|p| Self::trap("continue_evaluating", p))?;
        match self.shadow.continue_evaluating() {
            Ok(()) => self.shadow_after(),
            Err(e) => {
                let caret = e.get_line_with_pointer_caret::<&str>(&self.shadow, None);
                self.shadow_err = Some((e.to_string(), caret));
                CONT_ERR.with(|c| c.set(true));
            }
        }
        Ok(())
    }

    fn provide_input(&mut self, text: &str) -> Result<(), Fault> {
        self.calls += 1;
        catch(|| self.js.provide_input(text.to_string())).map_err(|p| Self::trap("provide_input", p))?;
        self.shadow.provide_input(text.to_string());
        Ok(())
    }

    fn break_at_current_location(&mut self) -> Result<(), Fault> {
        self.calls += 1;
        catch(|| self.js.break_at_current_location()).map_err(|p| Self::trap("break_at_current_location", p))?;
        self.shadow.break_at_current_location();
        Ok(())
    }
}

thread_local! {
    static CONT_ERR: std::cell::Cell<bool> = std::cell::Cell::new(false);
}
fn caret_optional(_want: &Option<(String, Vec<String>)>) -> bool {
    CONT_ERR.with(|c| c.replace(false))
}

/// Transliteration of `class Interpreter` in main.ts plus the two input handlers.
struct Page {
    pair: Pair,
    is_fully_interactive: bool,
    pending_timeouts: u32,
    input_disabled: bool,
    shown: Vec<(String, String)>,
    errors_shown: u32,
    stale_ticks: u32,
}

impl Page {
    // constructor(impl) { this.impl.randomize(BigInt(Date.now())); }
    fn new(seed: u64) -> Result<Page, Fault> {
        Ok(Page { pair: Pair::new(seed)?, is_fully_interactive: true, pending_timeouts: 0, input_disabled: false, shown: vec![], errors_shown: 0, stale_ticks: 0 })
    }

    // loadAndRunSourceCode(sourceCode)
    fn load_and_run_source_code(&mut self, source: &str) -> Result<(), Fault> {
        self.is_fully_interactive = false;
        for line in source.split('\n') {
            if line.trim().is_empty() {
                continue;
            }
            if !line.chars().next().map(|c| c.is_ascii_digit()).unwrap_or(false) {
                continue; // console.warn("Skipping line, as it's not numbered:", line)
            }
            self.pair.start_evaluating(line)?;
        }
        self.pair.start_evaluating("RUN")
    }

    // start()
    fn start(&mut self) -> Result<(), Fault> {
        if self.is_fully_interactive {
            self.shown.push(("print".into(), "Welcome".into()));
        }
        self.handle_current_state(0)
    }

    fn can_process_user_input(&mut self) -> Result<bool, Fault> {
        let st = self.pair.get_state()?;
        Ok(st == JsSt::Idle || st == JsSt::AwaitingInput)
    }

    fn can_break(&mut self) -> Result<bool, Fault> {
        Ok(self.pair.get_state()? != JsSt::Idle)
    }

    // submitUserInput(input)
    fn submit_user_input(&mut self, input: &str) -> Result<(), Fault> {
        match self.pair.get_state()? {
            JsSt::Idle => self.pair.start_evaluating(input)?,
            JsSt::AwaitingInput => self.pair.provide_input(input)?,
            other => return Err(("page-script-throws".into(), format!("submitUserInput called when state is {:?}!", other))),
        }
        self.handle_current_state(0)
    }

    // breakAtCurrentLocation()
    fn break_at_current_location(&mut self) -> Result<(), Fault> {
        let st = self.pair.get_state()?;
        if st == JsSt::AwaitingInput || st == JsSt::Running {
            self.is_fully_interactive = true;
            self.pair.break_at_current_location()?;
            self.handle_current_state(0)?;
        }
        Ok(())
    }

    // showOutput()
    fn show_output(&mut self) -> Result<(), Fault> {
        for (t, s) in self.pair.take_latest_output()? {
            self.shown.push((t.to_string(), s));
        }
        Ok(())
    }

    // handleCurrentState
    fn handle_current_state(&mut self, depth: u32) -> Result<(), Fault> {
        if depth > 1000 {
            return Err(("page-script-recursion".into(), "handleCurrentState recursed 1000 times".into()));
        }
        self.show_output()?;
        match self.pair.get_state()? {
            JsSt::Idle => {
                if !self.is_fully_interactive {
                    self.input_disabled = true; // ui.clearPromptAndDisableInput()
                    return Ok(());
                }
                Ok(()) // ui.setPrompt("] ")
            }
            JsSt::AwaitingInput => Ok(()), // ui.setPrompt("? ")
            JsSt::Errored => {
                let err = self.pair.take_latest_error()?;
                let Some(err) = err else {
                    return Err(("page-script-throws".into(), "Assertion failure, take_latest_error() returned undefined!".into()));
                };
                self.errors_shown += 1;
                self.shown.push(("error".into(), err));
                self.handle_current_state(depth + 1)
            }
            JsSt::Running => {
                self.pair.continue_evaluating()?;
                self.pending_timeouts += 1; // window.setTimeout(this.handleCurrentState, 5)
                Ok(())
            }
        }
    }

    // ui.onSubmitInput(...)
    fn on_submit_input(&mut self, input: &str) -> Result<(), Fault> {
        if self.input_disabled {
            return Ok(());
        }
        if self.can_break()? && input == "💥" {
            return self.break_at_current_location();
        }
        if !self.can_process_user_input()? {
            return Ok(());
        }
        self.submit_user_input(input)
    }

    // ui.onInputKeyDown: CTRL-C
    fn on_ctrl_c(&mut self) -> Result<(), Fault> {
        if self.input_disabled {
            return Ok(());
        }
        self.break_at_current_location()
    }

    fn on_tick(&mut self) -> Result<(), Fault> {
        if self.pending_timeouts == 0 {
            return Ok(());
        }
        self.pending_timeouts -= 1;
        if self.pending_timeouts > 0 {
            self.stale_ticks += 1;
        }
        self.handle_current_state(0)
    }
}

/// A failing line inside the start-up program: the loader never looks at the
/// adapter's state between lines, so the next start_evaluating trips the
/// adapter's assertion (known finding K1).
fn load_has_failing_line(load: &str) -> bool {
    let mut i = Interpreter::default();
    for line in load.split('\n') {
        if line.trim().is_empty() || !line.chars().next().map(|c| c.is_ascii_digit()).unwrap_or(false) {
            continue;
        }
        match catch(|| i.start_evaluating(line)) {
            Ok(Ok(())) => {
                if i.get_state() != InterpreterState::Idle {
                    return true; // a line that starts running (e.g. a 20-digit pseudo number) is not a stored line either
                }
            }
            _ => return true,
        }
    }
    false
}

fn probe_new(page: &mut Page) -> Result<(), Fault> {
    // After NEW the adapter must be indistinguishable from a freshly created one.
    let mut fresh = Pair::new(0)?;
    // a fresh page object has not been re-seeded by NEW either: both start from the default generator
    fresh.js = catch(JsInterpreter::new).map_err(|p| ("adapter-panic".to_string(), p))?;
    fresh.shadow = Interpreter::default();
    for line in ["LIST", "PRINT C; K$; Q9", "PRINT RND(1)", "CONT", "PRINT VV(3)", "RETURN", "NEXT C"] {
        let mut results = vec![];
        for p in [&mut page.pair, &mut fresh] {
            p.start_evaluating(line)?;
            let mut guard = 0;
            let mut outs = vec![];
            let mut errs = vec![];
            loop {
                outs.extend(p.take_latest_output()?);
                match p.get_state()? {
                    JsSt::Errored => errs.push(p.take_latest_error()?),
                    JsSt::Running if guard < 100 => {
                        guard += 1;
                        p.continue_evaluating()?;
                    }
                    _ => break,
                }
            }
            results.push((outs, errs));
        }
        if results[0] != results[1] {
            return Err(("new-differs-from-fresh".into(), format!("after NEW, {:?} gives {:?}; a fresh adapter gives {:?}", line, results[0], results[1])));
        }
    }
    Ok(())
}

pub fn check(h: &PageHistory, rec: &mut CaseRec) -> Verdict {
    CONT_ERR.with(|c| c.set(false));
    let run = || -> Result<(Page, u32, u32, u32), Fault> {
        let mut page = Page::new(h.seed)?;
        if let Some(src) = &h.load {
            page.load_and_run_source_code(src)?;
        }
        page.start()?;
        let (mut breaks, mut replies, mut news) = (0, 0, 0);
        for e in &h.events {
            match e {
                PageEvent::Submit(t) => {
                    // INTERNALS dumps hash-map-ordered debug text: two interpreters never agree on it
                    if t.split_ascii_whitespace().next().map(|w| w.eq_ignore_ascii_case("INTERNALS")).unwrap_or(false) {
                        continue;
                    }
                    let awaiting = !page.input_disabled && page.pair.get_state()? == JsSt::AwaitingInput;
                    let idle = !page.input_disabled && page.pair.get_state()? == JsSt::Idle;
                    page.on_submit_input(t)?;
                    if awaiting {
                        replies += 1;
                    }
                    if idle && t.to_uppercase().split_ascii_whitespace().next() == Some("NEW") && page.pair.get_state()? == JsSt::Idle && page.pending_timeouts == 0 {
                        news += 1;
                        probe_new(&mut page)?;
                    }
                }
                PageEvent::Break => {
                    let could = !page.input_disabled && page.pair.get_state()? != JsSt::Idle;
                    page.on_ctrl_c()?;
                    if could {
                        breaks += 1;
                    }
                }
                PageEvent::Tick => page.on_tick()?,
            }
        }
        // drain timers (bounded)
        let mut guard = 0;
        while page.pending_timeouts > 0 && guard < 300 {
            guard += 1;
            page.on_tick()?;
        }
        Ok((page, breaks, replies, news))
    };
    match run() {
        Err((key, detail)) => {
            let key = if key == "assertion-latest-error" && h.load.as_deref().map(load_has_failing_line).unwrap_or(false) && detail.contains("start_evaluating") && !detail.contains("submit") {
                // only the loader's own start_evaluating calls can hit this: any other path goes through handleCurrentState first
                "loader-ignores-errors".to_string()
            } else {
                key
            };
            Verdict::fail(key, format!("{}; history {:?}", detail, h))
        }
        Ok((page, breaks, replies, news)) => {
            if h.load.is_some() {
                rec.class("load");
            }
            if page.errors_shown > 0 {
                rec.class("error-shown");
            }
            if breaks > 0 {
                rec.class("break");
            }
            if page.stale_ticks > 0 {
                rec.class("stale-tick");
            }
            if replies > 0 {
                rec.class("reply");
            }
            if news > 0 {
                rec.class("NEW-probed");
            }
            if page.input_disabled {
                rec.class("input-disabled-at-end");
            }
            let kinds: Vec<String> = page.shown.iter().map(|(t, _)| t.clone()).collect();
            rec.nontrivial_if(page.errors_shown > 0 && (breaks > 0 || page.stale_ticks > 0) && (replies > 0 || h.load.is_some()), hash_of(&(kinds, breaks, replies, page.pair.calls)));
            Verdict::Pass
        }
    }
}

const SUBMITS: &[&str] = &["RUN", "CONT", "LIST", "NEW", "TRACE", "NOTRACE", "💥", "PRINT 1", "10 PRINT \"x\" : GOTO 10", "20 INPUT Q : PRINT Q : GOTO 20", "GOTO 10", "GOTO 20", "X = ", "PRINT 1/0", "1", "abc", "", "30 STOP", "GOTO 30", "INPUT K$", "\"", "PRINT \"é\"", "10", "99999999999999999999 PRINT 1", "20 C% = 1", "A = 0 : PRINT 1/A", "FOR I = 2 TO 0 STEP -1 : PRINT 6/I : NEXT I", "PRINT 1 : X$ = 5", "C = 1 : GOTO 99", "PRINT 2 : PRINT (", "INPUT Q : PRINT 1/0"];

fn event() -> impl Strategy<Value = PageEvent> {
    let cfg = GenCfg::C03.with_input();
    prop_oneof![
        8 => (0..SUBMITS.len()).prop_map(|i| PageEvent::Submit(SUBMITS[i].to_string())),
        3 => (gen::simple_stmt(cfg), gen::style()).prop_map(|(s, st)| PageEvent::Submit(crate::ast::render_stmts(&[s], st))),
        2 => super::c01::hostile_line().prop_map(PageEvent::Submit),
        1 => "\\PC{0,12}".prop_map(PageEvent::Submit),
        4 => Just(PageEvent::Break),
        14 => Just(PageEvent::Tick),
    ]
}

fn load_text() -> impl Strategy<Value = Option<String>> {
    let cfg = GenCfg { max_blocks: 8, ..GenCfg::C03.with_input() };
    prop_oneof![
        3 => Just(None),
        5 => (gen::program(cfg), gen::style()).prop_map(|(p, st)| Some(render_program(&p, st).join("\n"))),
        1 => document().prop_map(Some),
        1 => Just(Some("10 PRINT \"HI\"\n20 INPUT X\n30 IF X > 0 THEN 10\n".to_string())),
    ]
}

fn history() -> impl Strategy<Value = PageHistory> {
    (load_text(), prop_oneof![Just(0u64), any::<u64>()], prop::collection::vec(event(), 1..80)).prop_map(|(load, seed, events)| PageHistory { load, seed, events })
}

pub fn property() -> Property {
    let families: Vec<Box<dyn Family>> = vec![
        enum_family(
            "loader-witness",
            true,
            |_| 2,
            |_, i| PageHistory { load: Some(if i == 0 { "10 PRINT 1\n20 C% = 1\n30 PRINT 2".into() } else { "10 PRINT 1\n99999999999999999999 PRINT 2\n30 PRINT 3".into() }), seed: 1, events: vec![PageEvent::Tick] },
            check,
        ),
        prop_family("page-histories", 120_000, 2_000_000, |_| history(), check),
    ];
    Property {
        id: "C19",
        rule: "Page histories: an optional program text loaded at start-up (grammar programs, C05 documents, a fixed INPUT loop), then 1-80 events over {submit text (commands, generated statements, hostile lines, raw text, replies, the break emoji), CTRL-C, timer tick} handled by a line-by-line Rust transliteration of main.ts (constructor seeding, loadAndRunSourceCode, start, canProcessUserInput, canBreak, submitUserInput, breakAtCurrentLocation, showOutput, handleCurrentState with its recursion on Errored and its setTimeout chain modelled as a pending-timeout counter so that stale ticks after a break occur, the disabled-input end state). The real JsInterpreter is driven natively. Oracle after every adapter call: no panic (assertions, NewInterpreterRequested); get_state equals the shadow core interpreter's state (Errored iff an error is latched); take_latest_output equals the shadow's drained records as (type, text) pairs; the error text equals the core error's text followed by the caret lines (optional after continue_evaluating); after NEW a 7-line probe script gives identical results on the adapter and on a fresh one. Non-trivial: a history with an error shown, a break or stale tick, and a reply or a loaded program; distinct by shown-record-kind sequence + counts.",
        assumptions: vec![
            "the transliteration is a trusted model of the page script (TypeScript cannot be built or run in this sandbox); a change to main.ts alone is invisible (its SHA-256 is recorded in the evidence)",
            "traps are observed as native panics of the same Rust code, not in a WASM build",
        ],
        fuzz: Some(FuzzSpec { target: "c19_page", runs: 150_000, max_len: 1024, verdict: crate::fuzz::c19_verdict }),
        families,
        prelude: None,
        epilogue: Some(Box::new(|_, rec| {
            let sha = std::process::Command::new("sha256sum").arg("/repo/abasic-web/ts/main.ts").output().ok().map(|o| String::from_utf8_lossy(&o.stdout).split(' ').next().unwrap_or("").to_string()).unwrap_or_default();
            rec.set_extra("main_ts_sha256", serde_json::json!(sha));
            rec.set_extra("main_ts_sha256_transliterated_from", serde_json::json!(MAIN_TS_SHA));
            if sha != MAIN_TS_SHA {
                rec.note("NOTE: abasic-web/ts/main.ts differs from the version the transliteration was made from");
            }
        })),
    }
}

pub const MAIN_TS_SHA: &str = "42457637969d3d05be77d0260f87a8c3c1e53bb8bc0803981e992020470f7690";
