//! C03 — programs behave as an independent reference interpreter says they should.

use crate::ast::*;
use crate::core::*;
use crate::gen::{self, GenCfg};
use crate::model::{Model, Status};
use crate::sess::*;
use proptest::prelude::*;
use serde::{Deserialize, Serialize};

#[derive(Serialize, Deserialize, Debug, Clone)]
pub struct ProgCase {
    pub prog: Program,
    pub style: Style,
    pub seed: u64,
}

pub const MODEL_BUDGET: u64 = 4000;

pub fn has_suspending_then_with_else(p: &Program) -> bool {
    let mut found = false;
    p.walk_stmts(&mut |_, s| {
        if let Stmt::If { then: Branch::Stmt(t), els: Some(_), .. } = s {
            if matches!(**t, Stmt::Gosub(_) | Stmt::For { .. } | Stmt::Input(_) | Stmt::Stop) {
                found = true;
            }
        }
    });
    found
}

/// Runs program `c` on the model and on the implementation and compares.
pub fn check_prog(c: &ProgCase, rec: &mut CaseRec) -> Verdict {
    let lines = render_program(&c.prog, c.style);
    let mut m = Model::new(&c.prog, c.seed);
    let mut mb = MODEL_BUDGET;
    m.run(&mut mb);
    let model_done = m.status == Status::Done;

    let mut sess = Sess::new();
    sess.randomize(c.seed);
    match sess.enter_program(&lines) {
        Err(Crash(p)) => return Verdict::fail("panic-entering", p),
        Ok(Err(e)) => return Verdict::fail("valid-line-rejected", format!("{:?} for one of {:?}", e, lines)),
        Ok(Ok(())) => {}
    }
    let mut budget = if model_done { 4 * m.entries + 100 } else { MODEL_BUDGET / 2 };
    let mut out = vec![];
    let stop = match sess.line_and_run("RUN", &mut budget, &mut out) {
        Ok(s) => s,
        Err(Crash(p)) => return Verdict::fail("panic-running", format!("{} in {:?}", p, lines)),
    };
    let got_text = printed(&out);
    let want_text = m.printed();
    let show = || format!("program {:?}", lines);
    if model_done {
        let want_err = m.outcome();
        let got_err = match &stop {
            RunStop::Idle => None,
            RunStop::Error(e) => Some((e.kind, e.line)),
            RunStop::Budget => return Verdict::fail("impl-does-not-finish", format!("model finished after {} statements; {}", m.stmts_executed, show())),
            RunStop::Input => return Verdict::fail("impl-awaits-input", show()),
        };
        if got_text != want_text {
            return Verdict::fail("output-differs", format!("want {:?} got {:?}; {}", want_text, got_text, show()));
        }
        let runaway = m.runaway_function_recursion && matches!((&got_err, &want_err), (Some((ErrKind::StackOverflow, _)), Some((ErrKind::StackOverflow, _))));
        if runaway {
            rec.class("runaway-function-recursion(line-not-compared)");
        }
        if got_err != want_err && !runaway {
            let key = if c.seed != 0 && false { "" } else { "outcome-differs" };
            return Verdict::fail(key, format!("want {:?} got {:?} (text {:?}); {}", want_err, stop, got_text, show()));
        }
    } else {
        rec.class("budget");
        match &stop {
            RunStop::Budget => {}
            other => return Verdict::fail("impl-stops-early", format!("model still running after {} statements, impl: {:?}; {}", MODEL_BUDGET, other, show())),
        }
        if !want_text.starts_with(&got_text) {
            return Verdict::fail("output-prefix-differs", format!("want prefix of {:?} got {:?}; {}", want_text, got_text, show()));
        }
    }
    if let Ok(k) = std::env::var("VERIF_DEBUG_KIND") {
        if let Some((kind, line)) = m.outcome() {
            if kind.name().contains(&k) {
                eprintln!("DEBUG {:?} at {:?} after {} stmts:\n  {}", kind, line, m.stmts_executed, lines.join("\n  "));
            }
        }
    }
    let mut feats = m.features.len();
    if m.outcome().is_some() {
        feats += 1;
        rec.class("runtime-error");
        rec.class(m.outcome().unwrap().0.name());
        if m.stmts_executed < 4 { rec.class("error-within-3-statements"); }
    }
    for f in &m.features {
        rec.class(f);
    }
    if m.stmts_executed >= 20 { rec.class("executed>=20-statements"); }
    if m.max_stack >= 32 {
        rec.class("stack-cap-reached");
    }
    if has_suspending_then_with_else(&c.prog) {
        rec.class("suspending-then-with-else");
    }
    rec.nontrivial_if(m.stmts_executed >= 8 && feats >= 2, hash_str(&lines.join("\n")));
    Verdict::Pass
}

/// `n` FOR loops over distinct variables left open, then a counter-guarded jump (GOTO, or a
/// GOSUB that never returns) back to the FOR of loop `j`: the documented limit of 32 open
/// loops met by the documented "re-entering a FOR forgets it and its inner loops".
#[derive(Serialize, Deserialize, Debug, Clone)]
pub struct LoopCapCase {
    pub n: u32,
    pub j: u32,
    pub via_gosub: bool,
    pub packed: bool,
}

fn loop_cap_program(c: &LoopCapCase) -> Program {
    let k = || Expr::var("K");
    let mut lines = vec![Line { number: 10, stmts: vec![Stmt::Let { target: LValue::Var("K".into()), value: Expr::Num(0.0), with_let: false }] }];
    let fors: Vec<Stmt> = (1..=c.n).map(|i| Stmt::For { var: format!("C{}", i), from: Expr::Num(1.0), to: Expr::Num(2.0), step: None }).collect();
    let target = if c.packed { 100 } else { 100 + c.j.clamp(1, c.n.max(1)) as u64 };
    if c.packed {
        // all loops on one line: the jump re-enters the outermost one
        lines.push(Line { number: 100, stmts: fors });
    } else {
        for (i, f) in fors.into_iter().enumerate() {
            lines.push(Line { number: 101 + i as u64, stmts: vec![f] });
        }
    }
    lines.push(Line {
        number: 500,
        stmts: vec![
            Stmt::Let { target: LValue::Var("K".into()), value: Expr::bin(BinOp::Add, k(), Expr::Num(1.0)), with_let: false },
            Stmt::Print(vec![PrintItem::Expr(k()), PrintItem::Semi]),
        ],
    });
    let jump = if c.via_gosub { Stmt::Gosub(target) } else { Stmt::Goto(target) };
    lines.push(Line { number: 510, stmts: vec![Stmt::If { cond: Expr::bin(BinOp::Lt, k(), Expr::Num(4.0)), then: Branch::Stmt(Box::new(jump)), els: None }] });
    lines.push(Line { number: 520, stmts: vec![Stmt::Print(vec![PrintItem::Expr(Expr::Str("end".into()))])] });
    if c.n >= 1 {
        lines.push(Line { number: 530, stmts: vec![Stmt::Next(format!("C{}", c.n)), Stmt::Print(vec![PrintItem::Expr(Expr::Str("after".into()))])] });
    }
    Program { lines }
}

fn check_loop_cap(c: &LoopCapCase, rec: &mut CaseRec) -> Verdict {
    let v = check_prog(&ProgCase { prog: loop_cap_program(c), style: Style::PLAIN, seed: 0 }, rec);
    rec.class("loop-cap-reentry");
    v
}

const LOOP_CAP_NS: [u32; 6] = [1, 30, 31, 32, 33, 34];

pub fn case_strategy(cfg: GenCfg) -> impl Strategy<Value = ProgCase> {
    (gen::program(cfg), gen::style(), prop_oneof![Just(0u64), any::<u64>()]).prop_map(|(prog, style, seed)| ProgCase { prog, style, seed })
}

pub fn property() -> Property {
    let families: Vec<Box<dyn Family>> = vec![
        enum_family(
            "loop-cap-reentry",
            true,
            |_| (LOOP_CAP_NS.len() * 5 * 2 * 2) as u64,
            |_, i| {
                let n = LOOP_CAP_NS[(i % 6) as usize];
                let j = match (i / 6) % 5 {
                    0 => 1,
                    1 => 2,
                    2 => n / 2,
                    3 => n.saturating_sub(1),
                    _ => n,
                };
                LoopCapCase { n, j, via_gosub: (i / 30) % 2 == 1, packed: (i / 60) % 2 == 1 }
            },
            check_loop_cap,
        ),
        prop_family("programs", 150_000, 3_000_000, |_| case_strategy(GenCfg::C03), check_prog),
    ];
    Property {
        id: "C03",
        rule: "loop-cap-reentry (exhaustive list): 1 / 30-34 FOR loops over distinct variables left open (one per line or all on one line), then a counter-guarded GOTO or non-returning GOSUB back to the FOR of the outermost, second, middle, last-but-one or innermost loop, three times round, then NEXT of the innermost - the 32-loop limit met by FOR re-entry. programs: Structured programs from the grammar of DESIGN 2.1 (nested FOR incl. NEXT of an outer variable, loops left by GOTO, counter-guarded backward jumps, GOSUB from THEN/ELSE, subroutines falling into each other, GOSUB recursion to the 32-frame cap, READ/DATA/RESTORE, DIM and implicit arrays of 1-3 dimensions, DEF with dynamic scoping, all ELSE forms, injected runtime failures), laid out on numbered lines with random packing, rendered with random spacing/case, RUN under a seed; printed output and (error kind, line) must equal the reference interpreter's. Non-trivial: the model executed >= 8 statements and touched >= 2 feature classes (loop, subroutine, conditional, else, data, array, function, runtime error); distinct by program text. Programs that exceed the statement budget are compared on the printed prefix (class 'budget').",
        assumptions: vec![
            "the reference interpreter (harness/src/model.rs) is the trusted statement of the documented semantics",
            "generated programs stay inside the documented ELSE forms; jump targets are integers below 2^53",
        ],
        fuzz: None,
        families,
        prelude: Some(Box::new(|_, rec| {
            let n = crate::selftest::run()?;
            rec.set_extra("model_selftest_programs", serde_json::json!(n));
            Ok(vec![])
        })),
        epilogue: None,
    }
}
