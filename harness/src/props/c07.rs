//! C07 — break and CONT are transparent to the interrupted program.

use crate::ast::*;
use crate::core::*;
use crate::gen::{self, GenCfg, FUNCS, LET_NUM_VARS, NUM_VARS, STR_VARS};
use crate::run::*;
use crate::sess::*;
use proptest::prelude::*;
use serde::{Deserialize, Serialize};

pub const BUDGET: u64 = 400;

/// A side-effect-free immediate statement executed at a breakpoint. Index
/// fields are resolved against the interpreter's state at that moment.
#[derive(Serialize, Deserialize, Debug, Clone)]
pub enum Inspect {
    Literal(u8),
    Var(u8),
    Arith(u8, u8),
    /// PRINT of a cell of the k-th array that exists right now.
    CellOfExisting(u8, Vec<u8>),
    /// A statement that fails.
    Failing(u8),
    /// PRINT f(args) for the k-th function defined right now whose body is pure.
    Call(u8, u8),
}

const LITERALS: &[&str] = &["PRINT 1", "PRINT \"x\"", "PRINT", "PRINT 1;2,3;", "? \"a\";\"b\"", "REM nothing", "PRINT 2+3*4", "PRINT ABS(-1); INT(2.5)", "PRINT RND(0)", "LIST", "STATS", "PRINT NOT 0 AND 1"];
const FAILING: &[&str] = &[
    // a statement that fails without assigning anything: no loop ever uses XQ
    "NEXT XQ",
    "PRINT 1/0",
    "PRINT \"a\"+1",
    "PRINT (",
    "PRINT )",
    "PRINT 1 +",
    "THEN",
    "ELSE 5",
    "PRINT \"open",
    "PRINT 1.2.3",
    "PRINT %",
    "NEXT",
    "PRINT RND(-1)",
    "PRINT ABS(\"a\")",
    "X9 = ",
    "PRINT -\"a\"",
];

#[derive(Serialize, Deserialize, Debug, Clone)]
pub struct BreakCase {
    /// when set, these lines are the program (a real program text) and `prog` is ignored
    #[serde(default)]
    pub raw_lines: Option<Vec<String>>,
    pub prog: Program,
    pub style: Style,
    pub seed: u64,
    pub replies: Vec<String>,
    pub salt: u64,
    pub inspections: Vec<Inspect>,
}

fn inspect() -> impl Strategy<Value = Inspect> {
    prop_oneof![
        3 => (0u8..(LITERALS.len() as u8)).prop_map(Inspect::Literal),
        4 => any::<u8>().prop_map(Inspect::Var),
        2 => (any::<u8>(), any::<u8>()).prop_map(|(a, b)| Inspect::Arith(a, b)),
        3 => (any::<u8>(), prop::collection::vec(0u8..12, 3)).prop_map(|(k, i)| Inspect::CellOfExisting(k, i)),
        4 => (0u8..(FAILING.len() as u8)).prop_map(Inspect::Failing),
        4 => (any::<u8>(), any::<u8>()).prop_map(|(k, a)| Inspect::Call(k, a)),
    ]
}

pub fn replies() -> impl Strategy<Value = Vec<String>> {
    let pool = reply_pool();
    prop::collection::vec((0..pool.len()).prop_map(move |i| pool[i].to_string()), 0..8)
}

/// As `replies`, including replies of several lines.
pub fn replies_multiline() -> impl Strategy<Value = Vec<String>> {
    let pool = reply_pool_with_multiline();
    prop::collection::vec((0..pool.len()).prop_map(move |i| pool[i].to_string()), 0..8)
}

fn case() -> impl Strategy<Value = BreakCase> {
    let cfg = GenCfg { max_blocks: 10, ..GenCfg::C03.with_input() };
    (gen::program(cfg), gen::style(), prop_oneof![Just(0u64), any::<u64>()], replies_multiline(), any::<u64>(), prop::collection::vec(inspect(), 1..6))
        .prop_map(|(prog, style, seed, replies, salt, inspections)| BreakCase { raw_lines: None, prog, style, seed, replies, salt, inspections })
}

fn repo_case() -> impl Strategy<Value = BreakCase> {
    (0usize..2, any::<u64>(), crate::textgen::numeric_replies(), any::<u64>(), prop::collection::vec(inspect(), 1..6)).prop_map(|(w, seed, replies, salt, inspections)| BreakCase {
        raw_lines: Some(crate::textgen::repo_program(w)),
        prog: Program::default(),
        style: Style::PLAIN,
        seed,
        replies,
        salt,
        inspections,
    })
}

/// A function whose every DEF body in the program is free of RND, cells and calls.
fn pure_functions(p: &Program) -> Vec<String> {
    let mut impure = std::collections::HashSet::new();
    let mut seen = std::collections::HashSet::new();
    p.walk_stmts(&mut |_, s| {
        if let Stmt::Def { name, body, .. } = s {
            seen.insert(name.clone());
            let mut bad = false;
            body.walk(&mut |e| {
                if matches!(e, Expr::Rnd(_) | Expr::Cell(..) | Expr::Call(..)) {
                    bad = true
                }
            });
            if bad {
                impure.insert(name.clone());
            }
        }
    });
    let mut v: Vec<String> = seen.into_iter().filter(|n| !impure.contains(n)).collect();
    v.sort();
    v
}

fn inspection_text(i: &Inspect, sess: &Sess, pure: &[String]) -> Option<String> {
    match i {
        Inspect::Literal(k) => Some(LITERALS[*k as usize % LITERALS.len()].to_string()),
        Inspect::Var(k) => {
            let k = *k as usize;
            let all: Vec<&str> = NUM_VARS.iter().chain(STR_VARS.iter()).copied().collect();
            Some(format!("PRINT {}", all[k % all.len()]))
        }
        Inspect::Arith(a, b) => Some(format!(
            "PRINT {} * 2 + {} ; {} < {}",
            NUM_VARS[*a as usize % NUM_VARS.len()],
            NUM_VARS[*b as usize % NUM_VARS.len()],
            STR_VARS[*a as usize % STR_VARS.len()],
            STR_VARS[*b as usize % STR_VARS.len()]
        )),
        Inspect::CellOfExisting(k, idx) => {
            let snap = sess.interp.verif_snapshot();
            if snap.arrays.is_empty() {
                return None;
            }
            // an array that shares its name with a currently defined function would be read as a call
            let (name, dims, _, _) = &snap.arrays[*k as usize % snap.arrays.len()];
            if snap.functions.contains(name) {
                return None;
            }
            let subs: Vec<String> = dims.iter().enumerate().map(|(d, _)| idx[d % idx.len()].to_string()).collect();
            Some(format!("PRINT {}({})", name, subs.join(",")))
        }
        Inspect::Failing(k) => Some(FAILING[*k as usize % FAILING.len()].to_string()),
        Inspect::Call(k, a) => {
            let snap = sess.interp.verif_snapshot();
            let avail: Vec<&String> = snap.functions.iter().filter(|f| pure.contains(f)).collect();
            if avail.is_empty() {
                return None;
            }
            let name = avail[*k as usize % avail.len()];
            let params = FUNCS.iter().find(|(n, _)| n == name).map(|(_, p)| *p)?;
            let args: Vec<String> = params
                .iter()
                .enumerate()
                .map(|(pi, p)| {
                    let wrong_kind = *a % 7 == 3 && pi == 0;
                    let is_str = p.ends_with('$') != wrong_kind;
                    if is_str {
                        "\"s\"".to_string()
                    } else {
                        ((*a as usize + pi) % 5).to_string()
                    }
                })
                .collect();
            let args = if *a % 11 == 5 { args[..args.len() - 1].to_vec() } else { args };
            Some(format!("PRINT {}({})", name, args.join(",")))
        }
    }
}

struct Breaker<'a> {
    schedule: &'a dyn Fn(u64, St) -> bool,
    inspections: &'a [Inspect],
    pure: &'a [String],
    salt: u64,
    breaks: u64,
    deep_breaks: u64,
    failed_inspections: u64,
    failed_calls: u64,
    inspections_run: u64,
}

impl<'a> Host for Breaker<'a> {
    fn boundary(&mut self, sess: &mut Sess, turn: u64, state: St, _events: usize) -> Result<bool, Crash> {
        if !(self.schedule)(turn, state) {
            return Ok(false);
        }
        let snap = sess.interp.verif_snapshot();
        if !snap.loops.is_empty() || !snap.frames.is_empty() || snap.has_data_cursor || state == St::AwaitingInput {
            self.deep_breaks += 1;
        }
        self.breaks += 1;
        let r = sess.brk()?;
        if r.state != St::Idle {
            return Err(Crash("state not idle after break".into()));
        }
        let n = splitmix(self.salt ^ turn) % 4;
        for j in 0..n {
            let insp = &self.inspections[(splitmix(self.salt ^ turn ^ (j + 1) * 7919) % self.inspections.len() as u64) as usize];
            let Some(text) = inspection_text(insp, sess, self.pure) else { continue };
            let mut out = vec![];
            let mut budget = 200u64;
            let stop = sess.line_and_run(&text, &mut budget, &mut out)?;
            self.inspections_run += 1;
            match stop {
                RunStop::Idle => {}
                RunStop::Error(_) => {
                    self.failed_inspections += 1;
                    if matches!(insp, Inspect::Call(..)) {
                        self.failed_calls += 1;
                    }
                }
                other => return Err(Crash(format!("inspection {:?} left the interpreter in {:?}", text, other))),
            }
        }
        Ok(true)
    }
}

fn classify(p: &str) -> &'static str {
    if p.contains("panic") {
        "panic"
    } else {
        "protocol"
    }
}

fn check(c: &BreakCase, rec: &mut CaseRec) -> Verdict {
    let lines = c.raw_lines.clone().unwrap_or_else(|| render_program(&c.prog, c.style));
    let base = match load_and_run(&lines, c.seed, &c.replies, BUDGET, &mut NoHost) {
        Err(Crash(p)) => return Verdict::fail(classify(&p), format!("baseline: {} in {:?}", p, lines)),
        Ok(Err(e)) => return Verdict::fail("valid-line-rejected", format!("{:?}: {:?}", e, lines)),
        Ok(Ok((_, t))) => t,
    };
    let n = base.calls;
    let pure = pure_functions(&c.prog);
    // schedules
    let mut schedules: Vec<(String, Box<dyn Fn(u64, St) -> bool>)> = vec![];
    if n <= 7 {
        for mask in 1u64..(1 << n) {
            schedules.push((format!("subset {:b}", mask), Box::new(move |t, _| t <= 63 && (mask >> (t - 1)) & 1 == 1)));
        }
        rec.class("all-boundary-subsets");
    } else {
        schedules.push(("every boundary".into(), Box::new(|_, _| true)));
        schedules.push(("only while awaiting input".into(), Box::new(|_, s| s == St::AwaitingInput)));
        let salt = c.salt;
        schedules.push(("random half".into(), Box::new(move |t, _| splitmix(salt ^ t.wrapping_mul(31)) % 2 == 0)));
        schedules.push(("random eighth".into(), Box::new(move |t, _| splitmix(salt ^ t.wrapping_mul(131)) % 8 == 0)));
        for k in 0..2u64 {
            let at = 1 + splitmix(salt ^ (k + 99)) % n;
            schedules.push((format!("single boundary {}", at), Box::new(move |t, _| t == at)));
        }
    }
    let mut any_deep = false;
    let mut any_failed = false;
    let mut any_failed_call = false;
    let mut runs = 0;
    for (name, sched) in &schedules {
        let mut host = Breaker { schedule: &**sched, inspections: &c.inspections, pure: &pure, salt: c.salt, breaks: 0, deep_breaks: 0, failed_inspections: 0, failed_calls: 0, inspections_run: 0 };
        // every break+CONT at an input request costs one extra call: give the interrupted run room
        let budget = if base.end == End::Budget { BUDGET } else { BUDGET * 3 };
        let t = match load_and_run(&lines, c.seed, &c.replies, budget, &mut host) {
            Err(Crash(p)) => return Verdict::fail(classify(&p), format!("schedule {:?}: {} in {:?}", name, p, lines)),
            Ok(Err(e)) => return Verdict::fail("valid-line-rejected", format!("{:?}", e)),
            Ok(Ok((_, t))) => t,
        };
        runs += 1;
        if host.breaks == 0 {
            continue;
        }
        if let Err(why) = same_behaviour(&base, &t) {
            let key = if host.failed_calls > 0 { "continuation-differs-after-failed-call" } else if host.inspections_run == 0 { "continuation-differs-plain-break" } else { "continuation-differs" };
            return Verdict::fail(
                key,
                format!("schedule {:?} ({} breaks, {} inspections, {} failed): {}; baseline end {:?}, interrupted end {:?}; program {:?} replies {:?}", name, host.breaks, host.inspections_run, host.failed_inspections, why, base.end, t.end, lines, c.replies),
            );
        }
        any_deep |= host.deep_breaks > 0;
        any_failed |= host.failed_inspections > 0;
        any_failed_call |= host.failed_calls > 0;
    }
    rec.extra_evals = runs;
    if any_deep {
        rec.class("break-inside-loop/sub/data/input");
    }
    if any_failed {
        rec.class("failing-inspection");
    }
    if any_failed_call {
        rec.class("failing-function-call-inspection");
    }
    if base.replies > 0 {
        rec.class("program-consumed-replies");
    }
    rec.nontrivial_if(any_deep && n >= 3, hash_str(&format!("{:?}{:?}{}", lines, c.replies, c.salt)));
    Verdict::Pass
}

// ------------------------------------------------------------------ assignment at STOP

#[derive(Serialize, Deserialize, Debug, Clone)]
pub struct StopCase {
    pub prog: Program,
    pub style: Style,
    pub seed: u64,
    pub replies: Vec<String>,
    /// (line draw, statement draw) where STOPs are inserted
    pub stops: Vec<(u16, u16)>,
    pub assign: Stmt,
}

fn safe_assign() -> impl Strategy<Value = Stmt> {
    let num_val = prop_oneof![
        (0u32..20).prop_map(|n| Expr::Num(n as f64)),
        (0..NUM_VARS.len()).prop_map(|i| Expr::var(NUM_VARS[i])),
        (0..NUM_VARS.len(), 0u32..5).prop_map(|(i, n)| Expr::bin(BinOp::Add, Expr::var(NUM_VARS[i]), Expr::Num(n as f64))),
        (0..NUM_VARS.len(), 0..NUM_VARS.len()).prop_map(|(i, j)| Expr::bin(BinOp::Sub, Expr::bin(BinOp::Mul, Expr::var(NUM_VARS[i]), Expr::Num(2.0)), Expr::var(NUM_VARS[j]))),
    ];
    let str_val = prop_oneof![
        (0..STR_VARS.len()).prop_map(|i| Expr::var(STR_VARS[i])),
        Just(Expr::Str("set".into())),
        Just(Expr::Str("".into())),
    ];
    prop_oneof![
        3 => ((0..LET_NUM_VARS.len()), num_val.clone()).prop_map(|(t, v)| Stmt::Let { target: LValue::Var(LET_NUM_VARS[t].into()), value: v, with_let: false }),
        1 => ((0..gen::FOR_VARS.len()), num_val).prop_map(|(t, v)| Stmt::Let { target: LValue::Var(gen::FOR_VARS[t].into()), value: v, with_let: false }),
        2 => ((0..STR_VARS.len()), str_val).prop_map(|(t, v)| Stmt::Let { target: LValue::Var(STR_VARS[t].into()), value: v, with_let: true }),
    ]
}

fn stop_case() -> impl Strategy<Value = StopCase> {
    let cfg = GenCfg { max_blocks: 10, ..GenCfg::C03.with_input() };
    (gen::program(cfg), gen::style(), any::<u64>(), replies(), prop::collection::vec((any::<u16>(), any::<u16>()), 1..4), safe_assign())
        .prop_map(|(prog, style, seed, replies, stops, assign)| StopCase { prog, style, seed, replies, stops, assign })
}

fn insert_stops(p: &Program, stops: &[(u16, u16)]) -> Program {
    let mut p = p.clone();
    if p.lines.is_empty() {
        return p;
    }
    for (ld, sd) in stops {
        let li = idx(*ld, p.lines.len());
        let l = &mut p.lines[li];
        let max = if matches!(l.stmts.last(), Some(Stmt::Rem(_))) { l.stmts.len() - 1 } else { l.stmts.len() };
        let si = idx(*sd, max + 1);
        l.stmts.insert(si, Stmt::Stop);
    }
    p
}

fn replace_stops(s: &mut Stmt, with: &Stmt) {
    match s {
        Stmt::Stop => *s = with.clone(),
        Stmt::If { then, els, .. } => {
            if let Branch::Stmt(t) = then {
                replace_stops(t, with);
            }
            if let Some(Branch::Stmt(e)) = els {
                replace_stops(e, with);
            }
        }
        _ => {}
    }
}

struct Assigner {
    line: String,
    done: u64,
}
impl Host for Assigner {
    fn at_stop(&mut self, sess: &mut Sess, _turn: u64) -> Result<(), Crash> {
        let mut out = vec![];
        let mut b = 50u64;
        match sess.line_and_run(&self.line, &mut b, &mut out)? {
            RunStop::Idle => {
                self.done += 1;
                Ok(())
            }
            other => Err(Crash(format!("assignment {:?} at STOP ended with {:?}", self.line, other))),
        }
    }
}

fn check_stop(c: &StopCase, rec: &mut CaseRec) -> Verdict {
    let with_stops = insert_stops(&c.prog, &c.stops);
    let mut replaced = with_stops.clone();
    for l in replaced.lines.iter_mut() {
        for s in l.stmts.iter_mut() {
            replace_stops(s, &c.assign);
        }
    }
    // Both texts must be identical except for the replaced statement: the renderer's
    // pseudo-random choices (blanks, redundant parentheses) shift when a statement changes,
    // and the number of parentheses decides where a runaway DEF recursion is cut off (9.4).
    let plain = Style { redundant_parens: 0, spacing: 0, case: c.style.case.min(1), question_mark: false, salt: 0 };
    let lines_p = render_program(&with_stops, plain);
    let lines_q = render_program(&replaced, plain);
    let assign_text = render_stmts(std::slice::from_ref(&c.assign), Style::PLAIN);
    let mut host = Assigner { line: assign_text.clone(), done: 0 };
    let tp = match load_and_run(&lines_p, c.seed, &c.replies, BUDGET * 2, &mut host) {
        Err(Crash(p)) => return Verdict::fail(classify(&p), format!("{} in {:?}", p, lines_p)),
        Ok(Err(e)) => return Verdict::fail("valid-line-rejected", format!("{:?} in {:?}", e, lines_p)),
        Ok(Ok((_, t))) => t,
    };
    let tq = match load_and_run(&lines_q, c.seed, &c.replies, BUDGET * 2, &mut NoHost) {
        Err(Crash(p)) => return Verdict::fail(classify(&p), format!("{} in {:?}", p, lines_q)),
        Ok(Err(e)) => return Verdict::fail("valid-line-rejected", format!("{:?} in {:?}", e, lines_q)),
        Ok(Ok((_, t))) => t,
    };
    if let Err(why) = same_behaviour(&tp, &tq) {
        return Verdict::fail(
            "assignment-at-stop-differs",
            format!("{}; with STOP + `{}` at each break: end {:?}; with the assignment in place: end {:?}; program {:?} replies {:?}", why, assign_text, tp.end, tq.end, lines_p, c.replies),
        );
    }
    if host.done > 0 {
        rec.class("stop-reached");
    }
    if host.done > 1 {
        rec.class("stop-reached-repeatedly");
    }
    rec.nontrivial_if(host.done > 0 && tp.calls > host.done + 2, hash_str(&format!("{:?}{}", lines_p, assign_text)));
    Verdict::Pass
}

pub fn property() -> Property {
    let families: Vec<Box<dyn Family>> = vec![
        prop_family("break-schedules", 8_000, 400_000, |_| case(), check),
        prop_family("repo-programs", 300, 10_000, |_| repo_case(), check),
        prop_family("assignment-at-stop", 15_000, 600_000, |_| stop_case(), check_stop),
    ];
    Property {
        id: "C07",
        rule: "break-schedules: grammar-generated programs (INPUT and STOP allowed) with a reply script; the uninterrupted run (STOPs auto-continued) is the baseline; interrupted runs break in at chosen turn boundaries (all 2^n-1 subsets when the run has <= 7 calls; otherwise every boundary, only-while-awaiting-input, random half, random eighth and two single boundaries), execute 0-3 inspection statements there (PRINT of literals, variables, arithmetic, cells of arrays that exist at that moment per the snapshot hook, LIST/STATS, failing statements, calls of currently defined pure user functions incl. wrong kind/arity and failing bodies) and CONT. Oracle: the sequence of Print / REENTER / EXTRA IGNORED / reply-consumed events and the final outcome (kind, line) are identical; budget-limited runs are compared on the common prefix. assignment-at-stop: STOPs inserted at random statement positions; at every BREAK the host enters a non-failing scalar assignment and CONT; must equal the program with every STOP textually replaced by that assignment. Each interrupted run is one evaluation. Non-trivial: a break taken while a FOR loop or subroutine frame is open, a DATA cursor exists or input is awaited (snapshot hook), in a run of >= 3 calls / a STOP reached with the program continuing; distinct by program+replies+salt.",
        assumptions: vec![
            "an inspection that reads a cell only uses arrays that already exist (reading creates undeclared arrays); function-call inspections only use functions whose bodies contain no RND, cell or call",
            "runs are bounded by 400 program-advancing calls",
        ],
        fuzz: None,
        families,
        prelude: None,
        epilogue: None,
    }
}
