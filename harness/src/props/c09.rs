//! C09 — one host call executes at most one statement and always hands control back.

use crate::ast::*;
use crate::core::*;
use crate::gen::{self, GenCfg};
use crate::model::{Model, Status};
use crate::sess::*;
use proptest::prelude::*;
use serde::{Deserialize, Serialize};
use std::collections::HashMap;

pub const BUDGET: u64 = 1500;
const DELAY_N: &[u32] = &[1, 2, 3, 5, 20, 100, 300];
/// Work bound: token-cursor reads per call <= WORK_FACTOR * (tokens on the line + 2).
/// Calibrated on the unchanged tree (max observed ratio 5.125, see evidence
/// `max_reads_per_token`), doubled.
pub const WORK_FACTOR: u64 = 12;

#[derive(Serialize, Deserialize, Debug, Clone)]
pub struct StepCase {
    pub prog: Program,
    pub style: Style,
    pub seed: u64,
    pub replies: Vec<String>,
    /// break in after this many calls (modulo), then CONT
    pub break_after: u16,
}

fn count_ifs(l: &Line) -> usize {
    let mut n = 0;
    for s in &l.stmts {
        s.walk(&mut |st| {
            if matches!(st, Stmt::If { .. }) {
                n += 1
            }
        });
    }
    n
}

fn uses_functions(p: &Program) -> bool {
    let mut f = false;
    p.walk_stmts(&mut |_, s| {
        if matches!(s, Stmt::Def { .. }) {
            f = true;
        }
    });
    f
}

thread_local! {
    pub static MAX_RATIO: std::cell::Cell<f64> = std::cell::Cell::new(0.0);
}
pub static GLOBAL_MAX_RATIO_MILLI: std::sync::atomic::AtomicU64 = std::sync::atomic::AtomicU64::new(0);

fn check(c: &StepCase, rec: &mut CaseRec) -> Verdict {
    let lines = render_program(&c.prog, c.style);
    let ifs: HashMap<u64, usize> = c.prog.lines.iter().map(|l| (l.number, count_ifs(l))).collect();
    let line_numbers: std::collections::HashSet<u64> = c.prog.lines.iter().map(|l| l.number).collect();
    let def_free = !uses_functions(&c.prog);
    let mut sess = Sess::new();
    sess.randomize(c.seed);
    sess.set_options(false, true);
    match sess.enter_program(&lines) {
        Err(Crash(p)) => return Verdict::fail("panic", p),
        Ok(Err(e)) => return Verdict::fail("valid-line-rejected", format!("{:?} in {:?}", e, lines)),
        Ok(Ok(())) => {}
    }
    let show = |why: String| format!("{}; program {:?}", why, lines);
    let mut exec_calls = 0u64;
    let mut next_reply = 0usize;
    let mut broke = false;
    let mut cont_ok = false;
    let break_at = 2 + (c.break_after as u64 % 200);
    let judge_call = |r: &CallResult, what: &str| -> Option<Verdict> {
        let traces: Vec<u64> = r.out.iter().filter_map(|o| if let Out::Trace(l) = o { Some(*l) } else { None }).collect();
        if let Some(first) = traces.first() {
            if traces.iter().any(|t| t != first) {
                return Some(Verdict::fail("call-spans-lines", show(format!("{}: trace records {:?} in one call", what, traces))));
            }
            let allowed = 1 + ifs.get(first).copied().unwrap_or(0);
            if traces.len() > allowed {
                return Some(Verdict::fail("call-runs-several-statements", show(format!("{}: {} trace records for line {} which has {} IFs", what, traces.len(), first, allowed - 1))));
            }
        }
        let prints = r.out.iter().filter(|o| matches!(o, Out::Print(_))).count();
        if prints > 1 {
            return Some(Verdict::fail("call-prints-twice", show(format!("{}: {:?}", what, r.out))));
        }
        let notices = r.out.iter().filter(|o| matches!(o, Out::Reenter | Out::ExtraIgnored)).count();
        if notices > 1 {
            return Some(Verdict::fail("call-notices-twice", show(format!("{}: {:?}", what, r.out))));
        }
        None
    };
    let mut r = match sess.line("RUN") {
        Ok(r) => r,
        Err(Crash(p)) => return Verdict::fail("panic", show(p)),
    };
    exec_calls += 1;
    let mut end_err: Option<(ErrKind, Option<u64>)> = None;
    let mut finished = false;
    let mut max_ratio: f64 = 0.0;
    loop {
        if let Some(v) = judge_call(&r, "call") {
            return v;
        }
        if let Some(e) = &r.err {
            end_err = Some((e.kind, e.line));
            finished = true;
            break;
        }
        let stopped = r.out.iter().any(|o| matches!(o, Out::Break(_)));
        if r.state == St::Idle && !stopped {
            finished = true;
            break;
        }
        if exec_calls >= BUDGET {
            break;
        }
        if r.state == St::Idle && stopped {
            // STOP: resume
            r = match sess.line("CONT") {
                Ok(r) => r,
                Err(Crash(p)) => return Verdict::fail("panic", show(p)),
            };
            exec_calls += 1;
            continue;
        }
        if !broke && exec_calls >= break_at {
            // the host can stop the program between any two statements
            broke = true;
            let b = match sess.brk() {
                Ok(b) => b,
                Err(Crash(p)) => return Verdict::fail("panic", show(p)),
            };
            let named: Vec<Option<u64>> = b.out.iter().filter_map(|o| if let Out::Break(l) = o { Some(*l) } else { None }).collect();
            if b.state != St::Idle || named.len() != 1 {
                return Verdict::fail("break-does-not-idle", show(format!("state {:?}, records {:?}", b.state, b.out)));
            }
            match named[0] {
                Some(l) if line_numbers.contains(&l) => {}
                other => return Verdict::fail("break-names-no-program-line", show(format!("BREAK IN {:?}", other))),
            }
            r = match sess.line("CONT") {
                Ok(r) => r,
                Err(Crash(p)) => return Verdict::fail("panic", show(p)),
            };
            if let Some(e) = &r.err {
                if e.kind == ErrKind::CannotContinue {
                    return Verdict::fail("cont-after-break-refused", show(e.text.clone()));
                }
            }
            cont_ok = true;
            exec_calls += 1;
            continue;
        }
        match r.state {
            St::Running => {
                let before = sess.interp.verif_token_reads();
                let cur = sess.interp.verif_current_line();
                let ntok = cur.and_then(|l| sess.interp.verif_line_token_count(l));
                r = match sess.cont() {
                    Ok(r) => r,
                    Err(Crash(p)) => return Verdict::fail("panic", show(p)),
                };
                exec_calls += 1;
                if let (true, Some(n)) = (def_free, ntok) {
                    let reads = sess.interp.verif_token_reads() - before;
                    let ratio = reads as f64 / (n as f64 + 2.0);
                    if ratio > max_ratio {
                        max_ratio = ratio;
                    }
                    if reads > WORK_FACTOR * (n as u64 + 2) {
                        return Verdict::fail("work-not-bounded-by-line-length", show(format!("one call on line {:?} ({} tokens) read the token cursor {} times", cur, n, reads)));
                    }
                }
            }
            St::AwaitingInput => {
                let text = c.replies.get(next_reply).cloned().unwrap_or_else(|| "0".to_string());
                next_reply += 1;
                r = match sess.reply(&text) {
                    Ok(r) => r,
                    Err(Crash(p)) => return Verdict::fail("panic", show(p)),
                };
                if !r.out.is_empty() {
                    return Verdict::fail("reply-executes", show(format!("providing input produced {:?}", r.out)));
                }
            }
            St::Idle => unreachable!(),
        }
    }
    GLOBAL_MAX_RATIO_MILLI.fetch_max((max_ratio * 1000.0) as u64, std::sync::atomic::Ordering::Relaxed);
    // statement count against the model (only when no host break disturbed the count and the run finished)
    if finished {
        let mut m = Model::new(&c.prog, c.seed);
        let mut mb = 100 * BUDGET;
        let mut nr = 0usize;
        m.run(&mut mb);
        let mut guard = 0;
        loop {
            guard += 1;
            if guard > 5000 {
                break;
            }
            match m.status {
                Status::AwaitingInput => {
                    let text = c.replies.get(nr).cloned().unwrap_or_else(|| "0".to_string());
                    nr += 1;
                    m.reply(&text);
                    m.run(&mut mb);
                }
                Status::Stopped => {
                    m.cont();
                    m.run(&mut mb);
                }
                _ => break,
            }
        }
        if m.status == Status::Done && m.outcome() == end_err {
            if exec_calls < m.stmts_executed {
                return Verdict::fail("fewer-calls-than-statements", show(format!("{} executing calls for {} top-level statements", exec_calls, m.stmts_executed)));
            }
        }
    } else {
        rec.class("non-terminating-or-long");
    }
    if broke {
        rec.class("host-break");
    }
    if cont_ok {
        rec.class("break+CONT");
    }
    if def_free {
        rec.class("def-free(work-bound-checked)");
    }
    let multi = c.prog.lines.iter().any(|l| l.stmts.len() >= 3);
    rec.nontrivial_if(exec_calls >= 20 && multi, hash_str(&lines.join("\n")));
    Verdict::Pass
}

fn long_line_case() -> impl Strategy<Value = StepCase> {
    let cfg = GenCfg { error_weight: 0, allow_wild: false, ..GenCfg::C03 };
    (
        prop::collection::vec(gen::simple_stmt(cfg), 5..60),
        prop::option::weighted(0.5, (gen::cond_expr(false, 0), any::<u16>())),
        prop_oneof![Just(None), "[ -~]{0,200}".prop_map(Some)],
        gen::style(),
        any::<u16>(),
    )
        .prop_map(|(mut stmts, iff, rem, style, break_after)| {
            if let Some((cond, at)) = iff {
                // a long IF line: the false branch has to skip many tokens
                let i = idx(at, stmts.len());
                let then = stmts[i].clone();
                stmts[i] = Stmt::If { cond, then: Branch::Stmt(Box::new(then)), els: None };
            }
            if let Some(t) = rem {
                stmts.push(Stmt::Rem(t));
            }
            let prog = Program {
                lines: vec![
                    Line { number: 10, stmts },
                    Line { number: 20, stmts: vec![Stmt::Data((0..40).map(|i| DataItem::Num(i as f64)).collect())] },
                    Line { number: 30, stmts: vec![Stmt::Let { target: LValue::Var("Z1".into()), value: Expr::bin(BinOp::Add, Expr::var("Z1"), Expr::Num(1.0)), with_let: false }, Stmt::If { cond: Expr::bin(BinOp::Lt, Expr::var("Z1"), Expr::Num(3.0)), then: Branch::Line(10), els: None }] },
                ],
            };
            StepCase { prog, style, seed: 0, replies: vec![], break_after }
        })
}

pub fn property() -> Property {
    let families: Vec<Box<dyn Family>> = vec![
        // delay loops and other empty-bodied loops, the classic idiom whose every pass must still be a host turn
        enum_family(
            "delay-loops",
            true,
            |_| (DELAY_N.len() * 6) as u64,
            |_, i| {
                let n = DELAY_N[(i as usize) % DELAY_N.len()] as f64;
                let t = || "Y".to_string();
                let f = |step: Option<f64>| Stmt::For { var: t(), from: Expr::Num(1.0), to: Expr::Num(n), step: step.map(Expr::Num) };
                let lines = match (i as usize) / DELAY_N.len() {
                    0 => vec![Line { number: 10, stmts: vec![f(None), Stmt::Next(t())] }],
                    1 => vec![Line { number: 10, stmts: vec![f(Some(2.0)), Stmt::Next(t()), Stmt::Print(vec![PrintItem::Expr(Expr::var("Y"))])] }],
                    2 => vec![Line { number: 10, stmts: vec![f(None)] }, Line { number: 20, stmts: vec![Stmt::Next(t())] }],
                    3 => vec![Line { number: 10, stmts: vec![Stmt::Print(vec![]), f(None), Stmt::Empty, Stmt::Next(t())] }],
                    4 => vec![Line { number: 10, stmts: vec![f(None), Stmt::For { var: "W".into(), from: Expr::Num(1.0), to: Expr::Num(2.0), step: None }, Stmt::Next("W".into()), Stmt::Next(t())] }],
                    _ => vec![Line { number: 10, stmts: vec![f(None), Stmt::Rem(" wait".into())] }, Line { number: 20, stmts: vec![Stmt::Next(t()), Stmt::Goto(30)] }, Line { number: 30, stmts: vec![Stmt::End] }],
                };
                StepCase { prog: Program { lines }, style: Style::PLAIN, seed: 0, replies: vec![], break_after: 3 }
            },
            check,
        ),
        prop_family(
            "programs",
            60_000,
            800_000,
            |_| {
                let cfg = GenCfg { max_blocks: 12, ..GenCfg::C03.with_input() };
                (gen::program(cfg), gen::style(), any::<u64>(), super::c07::replies(), any::<u16>()).prop_map(|(prog, style, seed, replies, break_after)| StepCase { prog, style, seed, replies, break_after })
            },
            check,
        ),
        prop_family(
            "def-free-programs",
            30_000,
            400_000,
            |_| {
                let cfg = GenCfg { max_blocks: 12, defs_first: true, ..GenCfg::C03.with_input() };
                (gen::program_without_defs(cfg), gen::style(), any::<u64>(), super::c07::replies(), any::<u16>()).prop_map(|(prog, style, seed, replies, break_after)| StepCase { prog, style, seed, replies, break_after })
            },
            check,
        ),
        prop_family("long-lines", 15_000, 200_000, |_| long_line_case(), check),
    ];
    Property {
        id: "C09",
        rule: "Programs from the grammar (terminating and non-terminating: unguarded backward GOTOs, loops re-entered, recursion to the cap), a DEF-free sub-family, and single lines of 5-60 statements with long IF / REM / DATA tails, run with tracing on. Per executing host call (RUN, continue, CONT): all Trace records name one line and number at most 1 + (IF statements on that line); at most one Print record and one REENTER/EXTRA IGNORED notice; providing a reply executes nothing; the call returns Idle/Running/AwaitingInput. Once per run the host breaks in after a generated number of calls: the interpreter must go Idle with exactly one BREAK notice naming a program line and CONT must resume. For finished runs the number of executing calls must be >= the number of top-level statements the reference interpreter executed. For DEF-free programs each continue call may read the token cursor at most 12 x (tokens on the current line + 2) times (hook counter; linear in line length, calibrated 2x above the observed maximum reported as max_reads_per_token). Non-trivial: >= 20 executing calls over a program with a line of >= 3 statements; distinct by program text.",
        assumptions: vec!["work is measured as token-cursor reads (Program::peek_next_token), not time"],
        fuzz: None,
        families,
        prelude: None,
        epilogue: Some(Box::new(|_, rec| {
            let m = GLOBAL_MAX_RATIO_MILLI.load(std::sync::atomic::Ordering::Relaxed) as f64 / 1000.0;
            rec.set_extra("max_reads_per_token", serde_json::json!(m));
            rec.set_extra("work_factor_bound", serde_json::json!(WORK_FACTOR));
        })),
    }
}
