//! C18 — RND is a pure, in-range function of the seed.

use crate::core::*;
use crate::sess::*;
use abasic_core::verif_hooks::rng_step;
use proptest::prelude::*;
use serde::{Deserialize, Serialize};

const A: u128 = 1664525;
const C: u128 = 1013904223;
const M: u128 = 1 << 33;

/// The documented generator, independent of `random.rs` (u128 arithmetic).
pub fn model_next(state: u64) -> u64 {
    ((A * (state as u128) + C) % M) as u64
}
pub fn model_value(state_after: u64) -> f64 {
    (state_after as f64) / 8589934592.0
}

#[derive(Clone, Copy, PartialEq, Debug)]
enum Cls {
    Pos,
    Zero,
    Neg,
}

const ARGS: &[(&str, Cls)] = &[
    ("1", Cls::Pos),
    ("0.5", Cls::Pos),
    ("7", Cls::Pos),
    ("1000000", Cls::Pos),
    ("0.0001", Cls::Pos),
    ("2^40", Cls::Pos),
    ("ABS(-3)", Cls::Pos),
    (".00000000000000000001", Cls::Pos),
    (".1+.2-.3", Cls::Pos),
    ("1-.9999999999999999", Cls::Pos),
    ("2^-1000", Cls::Pos),
    ("99999999999999999999", Cls::Pos),
    ("0", Cls::Zero),
    ("-0", Cls::Zero),
    ("0*5", Cls::Zero),
    ("INT(0.5)", Cls::Zero),
    ("-1", Cls::Neg),
    ("-0.001", Cls::Neg),
    ("1-2", Cls::Neg),
    ("-.00000000000000000001", Cls::Neg),
    (".3-.1-.2", Cls::Neg),
];

/// A script line starting with this mark is a reply to a pending INPUT (typed as
/// a plain line when nothing is pending).
const REPLY_MARK: char = '\u{1}';

const STMTS: &[&str] = &["C = 5", "PRINT 1+1", "V(3) = 2", "Q$ = \"RND\"", "REM RND(1)", "PRINT \"RND(1)\""];

#[derive(Serialize, Deserialize, Debug, Clone)]
pub enum RndOp {
    Print(u8),
    Sum(u8, u8),
    Dice(u8),
    Stmt(u8),
    Program(Vec<u8>),
    Loop(u8),
    /// `PRINT RND(1)` then `PRINT RND(RND(x))`: a call whose argument is itself a call.
    Nested(u8),
    /// A program whose RND argument comes from a user function that calls RND.
    ViaDef(u8),
    /// A program whose INPUT target is an array cell with RND in its subscript
    /// (directly or through a user function): one program-level call, one step.
    InputCell(u8),
    /// RND in the condition of an IF whose THEN / ELSE clause is an INPUT: the
    /// statement is suspended and resumed, the condition's call happened once.
    CondInput(u8),
}

#[derive(Serialize, Deserialize, Debug, Clone)]
pub struct RndScript {
    pub seed: u64,
    pub ops: Vec<RndOp>,
}

pub const BOUNDARY_SEEDS: &[u64] = &[
    0,
    1,
    (1 << 33) - 1,
    1 << 33,
    (1 << 33) + 1,
    1 << 40,
    1 << 43,
    (1 << 44) - 1,
    1 << 44,
    1 << 63,
    u64::MAX - 1,
    u64::MAX,
];

pub fn seed_strategy() -> impl Strategy<Value = u64> {
    prop_oneof![
        3 => (0usize..BOUNDARY_SEEDS.len()).prop_map(|i| BOUNDARY_SEEDS[i]),
        2 => any::<u64>(),
        1 => 0u64..(1 << 34),
        1 => (0u32..64, any::<u64>()).prop_map(|(b, r)| (1u64 << b).wrapping_add(r % 3).wrapping_sub(1)),
    ]
}

fn arg() -> impl Strategy<Value = u8> {
    0u8..(ARGS.len() as u8)
}

fn op_strategy() -> impl Strategy<Value = RndOp> {
    prop_oneof![
        6 => arg().prop_map(RndOp::Print),
        2 => (arg(), arg()).prop_map(|(a, b)| RndOp::Sum(a, b)),
        1 => arg().prop_map(RndOp::Dice),
        2 => (0u8..(STMTS.len() as u8)).prop_map(RndOp::Stmt),
        1 => prop::collection::vec(arg(), 1..5).prop_map(RndOp::Program),
        1 => (1u8..5).prop_map(RndOp::Loop),
        2 => arg().prop_map(RndOp::Nested),
        1 => (1u8..9).prop_map(RndOp::ViaDef),
        1 => (0u8..2).prop_map(RndOp::InputCell),
        1 => (0u8..3).prop_map(RndOp::CondInput),
    ]
}

fn script_strategy() -> impl Strategy<Value = RndScript> {
    (seed_strategy(), prop::collection::vec(op_strategy(), 1..50)).prop_map(|(seed, ops)| RndScript { seed, ops })
}

struct Model {
    state: u64,
    /// A positive call has happened since seeding, so "previous value" is defined.
    started: bool,
}

#[derive(Debug, PartialEq, Clone)]
enum Expect {
    /// Exact printed text.
    Exact(String),
    /// A number in [lo, hi) printed followed by newline.
    Range(f64, f64),
}

impl Model {
    /// Evaluates RND(arg): Ok(Some(v)) exact value, Ok(None) unspecified-but-in-range, Err = UNIMPLEMENTED.
    fn rnd(&mut self, a: u8) -> Result<Option<f64>, ()> {
        match ARGS[a as usize].1 {
            Cls::Neg => Err(()),
            Cls::Zero => {
                if self.started {
                    Ok(Some(model_value(self.state)))
                } else {
                    Ok(None)
                }
            }
            Cls::Pos => {
                // u128 arithmetic on the raw state: correct for every 64-bit seed.
                self.state = model_next(self.state);
                self.started = true;
                Ok(Some(model_value(self.state)))
            }
        }
    }
}

fn lines_of(op: &RndOp) -> Vec<String> {
    match op {
        RndOp::Print(a) => vec![format!("PRINT RND({})", ARGS[*a as usize].0)],
        RndOp::Sum(a, b) => vec![format!("PRINT RND({})+RND({})", ARGS[*a as usize].0, ARGS[*b as usize].0)],
        RndOp::Dice(a) => vec![format!("PRINT INT(RND({})*6)+1", ARGS[*a as usize].0)],
        RndOp::Stmt(k) => vec![STMTS[*k as usize].to_string()],
        RndOp::Program(args) => {
            let mut v: Vec<String> = args
                .iter()
                .enumerate()
                .map(|(i, a)| format!("{} PRINT RND({})", 10 * (i + 1), ARGS[*a as usize].0))
                .collect();
            v.push("RUN".to_string());
            for i in 0..args.len() {
                v.push(format!("{}", 10 * (i + 1)));
            }
            v
        }
        RndOp::Nested(a) => vec!["PRINT RND(1)".to_string(), format!("PRINT RND(RND({}))", ARGS[*a as usize].0)],
        RndOp::ViaDef(n) => vec![
            format!("10 DEF FN D(N) = INT(RND(1) * N) + {}", if n % 2 == 0 { 1 } else { 0 }),
            format!("20 PRINT RND(FN D({}))", n),
            "RUN".to_string(),
            "10".to_string(),
            "20".to_string(),
        ],
        RndOp::InputCell(k) => vec![
            "5 DEF FN D(N) = INT(RND(1) * N)".to_string(),
            if k % 2 == 0 { "10 INPUT W(INT(RND(1) * 3))".to_string() } else { "10 INPUT W(FN D(3))".to_string() },
            "20 PRINT RND(1)".to_string(),
            "RUN".to_string(),
            format!("{}5", REPLY_MARK),
            "5".to_string(),
            "10".to_string(),
            "20".to_string(),
        ],
        RndOp::CondInput(k) => vec![
            "5 DEF FN D(N) = INT(RND(1) * N)".to_string(),
            match k % 3 {
                0 => "10 IF RND(1) < 2 THEN INPUT Q".to_string(),
                1 => "10 IF FN D(3) < 5 THEN INPUT Q".to_string(),
                _ => "10 IF RND(1) > 2 THEN PRINT 0 ELSE INPUT Q".to_string(),
            },
            "20 PRINT RND(0)".to_string(),
            "30 PRINT RND(1)".to_string(),
            "RUN".to_string(),
            format!("{}5", REPLY_MARK),
            "5".to_string(),
            "10".to_string(),
            "20".to_string(),
            "30".to_string(),
        ],
        RndOp::Loop(n) => vec![
            format!("10 FOR K = 1 TO {}", n),
            "20 PRINT RND(K)".to_string(),
            "30 NEXT K".to_string(),
            "RUN".to_string(),
            "10".to_string(),
            "20".to_string(),
            "30".to_string(),
        ],
    }
}

/// Expected observable result of each submitted line of an op.
fn expect_of(op: &RndOp, m: &mut Model) -> Vec<(Vec<Expect>, bool)> {
    // per line: (expected prints, expect UNIMPLEMENTED error)
    match op {
        RndOp::Print(a) => vec![match m.rnd(*a) {
            Err(()) => (vec![], true),
            Ok(Some(v)) => (vec![Expect::Exact(format!("{}\n", v))], false),
            Ok(None) => (vec![Expect::Range(0.0, 1.0)], false),
        }],
        RndOp::Sum(a, b) => vec![match m.rnd(*a) {
            Err(()) => (vec![], true),
            Ok(x) => match m.rnd(*b) {
                Err(()) => (vec![], true),
                Ok(y) => match (x, y) {
                    (Some(x), Some(y)) => (vec![Expect::Exact(format!("{}\n", x + y))], false),
                    _ => (vec![Expect::Range(0.0, 2.0)], false),
                },
            },
        }],
        RndOp::Dice(a) => vec![match m.rnd(*a) {
            Err(()) => (vec![], true),
            Ok(Some(v)) => (vec![Expect::Exact(format!("{}\n", (v * 6.0).floor() + 1.0))], false),
            Ok(None) => (vec![Expect::Range(1.0, 7.0)], false),
        }],
        RndOp::Stmt(k) => {
            let s = STMTS[*k as usize];
            let prints = if s == "PRINT 1+1" {
                vec![Expect::Exact("2\n".into())]
            } else if s == "PRINT \"RND(1)\"" {
                vec![Expect::Exact("RND(1)\n".into())]
            } else {
                vec![]
            };
            vec![(prints, false)]
        }
        RndOp::Program(args) => {
            let mut out = vec![];
            for _ in args {
                out.push((vec![], false));
            }
            let mut prints = vec![];
            let mut err = false;
            for a in args {
                match m.rnd(*a) {
                    Err(()) => {
                        err = true;
                        break;
                    }
                    Ok(Some(v)) => prints.push(Expect::Exact(format!("{}\n", v))),
                    Ok(None) => prints.push(Expect::Range(0.0, 1.0)),
                }
            }
            out.push((prints, err));
            for _ in args {
                out.push((vec![], false));
            }
            out
        }
        RndOp::Nested(a) => {
            m.state = model_next(m.state);
            m.started = true;
            let first = (vec![Expect::Exact(format!("{}\n", model_value(m.state)))], false);
            let second = match m.rnd(*a) {
                Err(()) => (vec![], true),
                // the inner value is the outer argument: positive advances, zero repeats
                Ok(v) => {
                    let v = v.expect("a positive call has happened");
                    if v > 0.0 {
                        m.state = model_next(m.state);
                    }
                    (vec![Expect::Exact(format!("{}\n", model_value(m.state)))], false)
                }
            };
            vec![first, second]
        }
        RndOp::ViaDef(n) => {
            // inner call (always positive), then the outer call with FN D's value
            m.state = model_next(m.state);
            m.started = true;
            let d = (model_value(m.state) * (*n as f64)).floor() + if n % 2 == 0 { 1.0 } else { 0.0 };
            if d > 0.0 {
                m.state = model_next(m.state);
            }
            let run = (vec![Expect::Exact(format!("{}\n", model_value(m.state)))], false);
            vec![(vec![], false), (vec![], false), run, (vec![], false), (vec![], false)]
        }
        RndOp::InputCell(k) => {
            // the subscript's call, then PRINT RND(1): two steps in all (the reply is
            // acceptable, so the INPUT statement is executed to completion exactly once)
            let _ = k;
            m.state = model_next(m.state);
            m.state = model_next(m.state);
            m.started = true;
            let v = (vec![Expect::Exact(format!("{}\n", model_value(m.state)))], false);
            let none = (vec![], false);
            vec![none.clone(), none.clone(), none.clone(), none.clone(), v, none.clone(), none.clone(), none]
        }
        RndOp::CondInput(_) => {
            m.state = model_next(m.state);
            m.started = true;
            let repeat = Expect::Exact(format!("{}\n", model_value(m.state)));
            m.state = model_next(m.state);
            let next = Expect::Exact(format!("{}\n", model_value(m.state)));
            let none = (vec![], false);
            vec![none.clone(), none.clone(), none.clone(), none.clone(), none.clone(), (vec![repeat, next], false), none.clone(), none.clone(), none.clone(), none]
        }
        RndOp::Loop(n) => {
            let mut out = vec![(vec![], false), (vec![], false), (vec![], false)];
            let mut prints = vec![];
            for _ in 0..*n {
                // RND(K) with K >= 1: positive
                m.state = model_next(m.state);
                m.started = true;
                prints.push(Expect::Exact(format!("{}\n", model_value(m.state))));
            }
            out.push((prints, false));
            out.extend([(vec![], false), (vec![], false), (vec![], false)]);
            out
        }
    }
}

fn matches(expect: &[Expect], got: &[String]) -> Result<(), String> {
    if expect.len() != got.len() {
        return Err(format!("expected {} print records, got {:?}", expect.len(), got));
    }
    for (e, g) in expect.iter().zip(got) {
        match e {
            Expect::Exact(s) => {
                if s != g {
                    return Err(format!("expected {:?}, got {:?}", s, g));
                }
            }
            Expect::Range(lo, hi) => {
                let Some(v) = g.strip_suffix('\n').and_then(|t| t.parse::<f64>().ok()) else {
                    return Err(format!("expected a number, got {:?}", g));
                };
                if !(v >= *lo && v < *hi) {
                    return Err(format!("value {} outside [{}, {})", v, lo, hi));
                }
            }
        }
    }
    Ok(())
}

/// Drives the web adapter natively with the same lines and returns per line
/// (prints, error text).
fn web_run(seed: u64, lines: &[String]) -> Result<Vec<(Vec<String>, Option<String>)>, String> {
    use abasic_web::{JsInterpreter, JsInterpreterOutputType, JsInterpreterState};
    catch(|| {
        let mut js = JsInterpreter::default();
        js.randomize(seed);
        let mut res = vec![];
        for l in lines {
            match l.strip_prefix(REPLY_MARK) {
                Some(reply) if matches!(js.get_state(), JsInterpreterState::AwaitingInput) => js.provide_input(reply.to_string()),
                Some(reply) => js.start_evaluating(reply.to_string()),
                None => js.start_evaluating(l.clone()),
            }
            let mut prints = vec![];
            let mut budget = 10_000;
            loop {
                for o in js.take_latest_output() {
                    if let JsInterpreterOutputType::Print = o.output_type {
                        prints.push(o.into_string());
                    }
                }
                match js.get_state() {
                    JsInterpreterState::Running if budget > 0 => {
                        budget -= 1;
                        js.continue_evaluating();
                    }
                    _ => break,
                }
            }
            let err = js.take_latest_error();
            res.push((prints, err));
        }
        res
    })
}

fn check_script(s: &RndScript, rec: &mut CaseRec) -> Verdict {
    let mut model = Model { state: s.seed, started: false };
    let mut a = Sess::new();
    let mut b = Sess::new();
    a.randomize(s.seed);
    b.randomize(s.seed);
    let mut all_lines = vec![];
    let mut core_results: Vec<(Vec<String>, Option<ErrKind>)> = vec![];
    let mut classes_seen = [false; 3];
    for op in &s.ops {
        match op {
            RndOp::Print(x) | RndOp::Dice(x) | RndOp::Nested(x) => classes_seen[ARGS[*x as usize].1 as usize] = true,
            RndOp::Sum(x, y) => {
                classes_seen[ARGS[*x as usize].1 as usize] = true;
                classes_seen[ARGS[*y as usize].1 as usize] = true;
            }
            RndOp::Program(v) => v.iter().for_each(|x| classes_seen[ARGS[*x as usize].1 as usize] = true),
            _ => {}
        }
        let lines = lines_of(op);
        let expects = expect_of(op, &mut model);
        for (line, (exp_prints, exp_err)) in lines.iter().zip(expects) {
            let mut outs = [vec![], vec![]];
            let mut stops = vec![];
            for (i, sess) in [&mut a, &mut b].into_iter().enumerate() {
                let mut budget = 10_000u64;
                let res = match line.strip_prefix(REPLY_MARK) {
                    Some(reply) if sess.state().map(|s| s == St::AwaitingInput).unwrap_or(false) => sess.reply(reply).and_then(|r| {
                        outs[i].extend(r.out);
                        sess.run_on(&mut budget, &mut outs[i])
                    }),
                    Some(reply) => sess.line_and_run(reply, &mut budget, &mut outs[i]),
                    None => sess.line_and_run(line, &mut budget, &mut outs[i]),
                };
                match res {
                    Ok(stop) => stops.push(stop),
                    Err(Crash(p)) => {
                        let key = if p.contains("overflow") { "panic-overflow" } else { "panic" };
                        return Verdict::fail(key, format!("line {:?} with seed {}: {}", line, s.seed, p));
                    }
                }
            }
            let pa: Vec<String> = outs[0].iter().filter_map(|o| if let Out::Print(p) = o { Some(p.clone()) } else { None }).collect();
            let pb: Vec<String> = outs[1].iter().filter_map(|o| if let Out::Print(p) = o { Some(p.clone()) } else { None }).collect();
            if pa != pb || stops[0] != stops[1] {
                return Verdict::fail("two-interpreters-differ", format!("line {:?}: {:?}/{:?} vs {:?}/{:?}", line, pa, stops[0], pb, stops[1]));
            }
            let errk = match &stops[0] {
                RunStop::Error(e) => Some(e.kind),
                RunStop::Idle | RunStop::Input => None,
                other => return Verdict::fail("unexpected-stop", format!("line {:?}: {:?}", line, other)),
            };
            if exp_err {
                if errk != Some(ErrKind::Unimplemented) {
                    return Verdict::fail("negative-arg-not-error", format!("line {:?}: expected UNIMPLEMENTED, got {:?} {:?}", line, errk, pa));
                }
                // prints before the error inside a program are checked below too
            } else if let Some(k) = errk {
                return Verdict::fail("unexpected-error", format!("line {:?}: {:?}", line, k));
            }
            if let Err(why) = matches(&exp_prints, &pa) {
                let key = if why.contains("outside") { "rnd0-out-of-range" } else { "sequence-mismatch" };
                return Verdict::fail(key, format!("seed {} line {:?}: {}", s.seed, line, why));
            }
            core_results.push((pa, errk));
            all_lines.push(line.clone());
        }
    }
    // Same sequence on the Web front end.
    match web_run(s.seed, &all_lines) {
        Err(p) => return Verdict::fail("web-panic", format!("seed {}: {}", s.seed, p)),
        Ok(web) => {
            for (i, ((wp, werr), (cp, cerr))) in web.iter().zip(&core_results).enumerate() {
                if wp != cp || werr.is_some() != cerr.is_some() {
                    return Verdict::fail("web-differs", format!("line {:?}: web {:?}/{:?} core {:?}/{:?}", all_lines[i], wp, werr, cp, cerr));
                }
            }
        }
    }
    let all3 = classes_seen.iter().all(|x| *x);
    if all3 {
        rec.class("mixes-pos-zero-neg");
    }
    if s.seed >= (1 << 33) {
        rec.class("seed>=2^33");
    }
    rec.nontrivial_if(all3 && s.seed >= (1 << 33), hash_str(&format!("{:?}", s)));
    Verdict::Pass
}

#[derive(Serialize, Deserialize, Debug, Clone)]
pub struct Chunk {
    pub start: u64,
    pub stride: u64,
    pub count: u64,
}

fn check_state(state: u64) -> Result<(), String> {
    let (value, latest) = catch(|| rng_step(state)).map_err(|p| format!("state {}: panic {}", state, p))?;
    let next = model_next(state);
    let want = model_value(next);
    if value.to_bits() != want.to_bits() {
        return Err(format!("state {}: value {} != model {}", state, value, want));
    }
    if latest.to_bits() != value.to_bits() {
        return Err(format!("state {}: RND(0) after step gives {} != {}", state, latest, value));
    }
    if !(value >= 0.0 && value < 1.0) {
        return Err(format!("state {}: value {} outside [0,1)", state, value));
    }
    Ok(())
}

fn check_chunk(c: &Chunk, rec: &mut CaseRec) -> Verdict {
    let mut s = c.start;
    for _ in 0..c.count {
        if let Err(e) = check_state(s) {
            let key = if e.contains("panic") { "step-panic" } else { "step-mismatch" };
            return Verdict::fail(key, e);
        }
        s = s.wrapping_add(c.stride);
    }
    rec.extra_evals = c.count.saturating_sub(1);
    rec.nontrivial = Some(hash_of(&(c.start, c.stride, c.count)));
    Verdict::Pass
}

const CHUNK: u64 = 1 << 16;

pub fn property() -> Property {
    let families: Vec<Box<dyn Family>> = vec![
        // Generator states: quick = every 128th state of all 2^33 (plus the
        // boundary family below); thorough = all 2^33 states.
        enum_family(
            "state-sweep",
            true,
            |tier| match tier {
                Tier::Quick => (1u64 << 33) / 128 / CHUNK,
                Tier::Thorough => (1u64 << 33) / CHUNK,
            },
            |tier, i| match tier {
                Tier::Quick => Chunk { start: i * CHUNK * 128, stride: 128, count: CHUNK },
                Tier::Thorough => Chunk { start: i * CHUNK, stride: 1, count: CHUNK },
            },
            check_chunk,
        ),
        // Both ends and every power of two +-1 inside the state space.
        enum_family(
            "state-boundaries",
            true,
            |_| 34 * 3 + 2,
            |_, i| {
                if i < 34 * 3 {
                    let b = i / 3;
                    let s = ((1u64 << b) + (i % 3)).wrapping_sub(1) % (1 << 33);
                    Chunk { start: s, stride: 1, count: 1 }
                } else if i == 34 * 3 {
                    Chunk { start: 0, stride: 1, count: 4096 }
                } else {
                    Chunk { start: (1 << 33) - 4096, stride: 1, count: 4096 }
                }
            },
            check_chunk,
        ),
        // Seeds beyond the modulus through the same hook.
        prop_family(
            "seed-step",
            2_000_000,
            20_000_000,
            |_| seed_strategy().prop_map(|s| Chunk { start: s, stride: 0, count: 1 }),
            |c: &Chunk, rec| {
                let v = check_chunk(c, rec);
                if c.start < (1 << 33) {
                    rec.nontrivial = None;
                }
                v
            },
        ),
        prop_family("api-scripts", 120_000, 1_500_000, |_| script_strategy(), check_script),
    ];
    Property {
        id: "C18",
        rule: "state-sweep/state-boundaries: generator states stepped through the rng_step hook and compared bit-for-bit with an independent u128 model (quick: every 128th of the 2^33 states plus all power-of-two neighbours and both ends; thorough: all 2^33 states; each 65536-state chunk is one counted case, coverage.states_checked gives the number of states). seed-step: seeds from boundaries + random u64, non-trivial iff seed >= 2^33. api-scripts: random scripts of PRINT RND(x) / RND inside expressions / RND(RND(x)) / RND of a user function that itself calls RND / RND in the subscript of an INPUT target / RND in the condition of an IF whose clause is an INPUT / numbered programs and FOR loops on two core interpreters and the Web adapter, all seeded alike, compared with the model; non-trivial iff the script uses positive, zero and negative arguments and the seed is >= 2^33; distinct by script.",
        assumptions: vec![
            "RND(0) before any positive call after seeding has no defined 'previous value'; only 0 <= v < 1 is required there",
            "f64 division by 2^33 is exact for states < 2^33, so bit-equality is the right comparison",
        ],
        fuzz: None,
        families,
        prelude: None,
        epilogue: None,
    }
}
