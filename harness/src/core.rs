//! Shared runner machinery: context, counters, proptest-driven search with
//! shrinking, exhaustive enumeration, replay files, known findings, evidence.

use proptest::strategy::{Strategy, ValueTree};
use proptest::test_runner::{Config, RngSeed, TestCaseError, TestError, TestRunner};
use serde::{de::DeserializeOwned, Serialize};
use serde_json::{json, Value};
use std::cell::{Cell, RefCell};
use std::collections::{BTreeMap, HashSet};
use std::hash::{Hash, Hasher};
use std::panic::{catch_unwind, AssertUnwindSafe};
use std::path::{Path, PathBuf};
use std::sync::atomic::{AtomicBool, AtomicU64, Ordering};
use std::sync::Mutex;
use std::time::Instant;

pub const WORKERS: usize = 16;
pub const WORKER_STACK: usize = 256 << 20;
/// A single case that makes no progress for this long is reported as
/// INCONCLUSIVE (exit 2), never as a violation.
pub const WATCHDOG_SECS: u64 = 300;

#[derive(Clone, Copy, PartialEq, Debug)]
pub enum Tier {
    Quick,
    Thorough,
}

impl Tier {
    pub fn name(self) -> &'static str {
        match self {
            Tier::Quick => "quick",
            Tier::Thorough => "thorough",
        }
    }
    /// Pick a work amount by tier.
    pub fn pick(self, quick: u64, thorough: u64) -> u64 {
        match self {
            Tier::Quick => quick,
            Tier::Thorough => thorough,
        }
    }
}

#[derive(Clone, Debug)]
pub struct KnownFinding {
    pub property: String,
    pub key: String,
    pub status: String,
    pub what: String,
}

pub struct Ctx {
    pub prop: String,
    pub tier: Tier,
    pub seed: u64,
    pub verif_dir: PathBuf,
    pub known: Vec<KnownFinding>,
    pub start: Instant,
    pub stop: AtomicBool,
    /// Set when the harness itself failed (a panic outside the code under test).
    pub infra: Mutex<Option<String>>,
    /// Scale factor for case counts (VERIF_SCALE, default 1.0); used by
    /// sensitivity runs to shorten or lengthen a search without editing code.
    pub scale: f64,
}

impl Ctx {
    pub fn new(prop: &str, tier: Tier, seed: u64, verif_dir: &Path) -> Ctx {
        let known = load_known(verif_dir);
        let scale = std::env::var("VERIF_SCALE")
            .ok()
            .and_then(|s| s.parse::<f64>().ok())
            .unwrap_or(1.0);
        Ctx {
            prop: prop.to_string(),
            tier,
            seed,
            verif_dir: verif_dir.to_path_buf(),
            known,
            start: Instant::now(),
            stop: AtomicBool::new(false),
            infra: Mutex::new(None),
            scale,
        }
    }
    pub fn cases(&self, quick: u64, thorough: u64) -> u64 {
        ((self.tier.pick(quick, thorough) as f64) * self.scale).max(1.0) as u64
    }
    pub fn is_known(&self, key: &str) -> Option<&KnownFinding> {
        self.known
            .iter()
            .find(|k| k.property == self.prop && k.key == key && k.status == "known")
    }
    pub fn out_dir(&self) -> PathBuf {
        let d = self.verif_dir.join("out");
        let _ = std::fs::create_dir_all(&d);
        d
    }
}

fn load_known(verif_dir: &Path) -> Vec<KnownFinding> {
    let p = verif_dir.join("known_findings.json");
    let Ok(text) = std::fs::read_to_string(&p) else {
        return vec![];
    };
    let Ok(v) = serde_json::from_str::<Value>(&text) else {
        eprintln!("cannot parse {}", p.display());
        std::process::exit(3);
    };
    let mut out = vec![];
    if let Some(arr) = v.get("findings").and_then(|f| f.as_array()) {
        for e in arr {
            out.push(KnownFinding {
                property: e["property"].as_str().unwrap_or("").to_string(),
                key: e["key"].as_str().unwrap_or("").to_string(),
                status: e["status"].as_str().unwrap_or("").to_string(),
                what: e["what"].as_str().unwrap_or("").to_string(),
            });
        }
    }
    out
}

pub fn splitmix(mut x: u64) -> u64 {
    x = x.wrapping_add(0x9E3779B97F4A7C15);
    let mut z = x;
    z = (z ^ (z >> 30)).wrapping_mul(0xBF58476D1CE4E5B9);
    z = (z ^ (z >> 27)).wrapping_mul(0x94D049BB133111EB);
    z ^ (z >> 31)
}

pub fn hash_str(s: &str) -> u64 {
    // FNV-1a, then mixed; stable across runs and platforms.
    let mut h: u64 = 0xcbf29ce484222325;
    for b in s.as_bytes() {
        h ^= *b as u64;
        h = h.wrapping_mul(0x100000001b3);
    }
    splitmix(h)
}

pub fn hash_of<T: Hash>(t: &T) -> u64 {
    let mut h = Fnv(0xcbf29ce484222325);
    t.hash(&mut h);
    splitmix(h.0)
}

struct Fnv(u64);
impl Hasher for Fnv {
    fn finish(&self) -> u64 {
        self.0
    }
    fn write(&mut self, bytes: &[u8]) {
        for b in bytes {
            self.0 ^= *b as u64;
            self.0 = self.0.wrapping_mul(0x100000001b3);
        }
    }
}

// ---------------------------------------------------------------- panics

thread_local! {
    static LAST_PANIC: RefCell<Option<String>> = RefCell::new(None);
}

pub fn install_quiet_panic_hook() {
    std::panic::set_hook(Box::new(|info| {
        let msg = if let Some(s) = info.payload().downcast_ref::<&str>() {
            s.to_string()
        } else if let Some(s) = info.payload().downcast_ref::<String>() {
            s.clone()
        } else {
            "panic".to_string()
        };
        let loc = info
            .location()
            .map(|l| format!("{}:{}", l.file(), l.line()))
            .unwrap_or_default();
        if let Ok(mut g) = LAST_PANIC_ANY.try_lock() {
            *g = format!("{} @ {}", msg, loc);
        }
        LAST_PANIC.with(|p| *p.borrow_mut() = Some(format!("{} @ {}", msg, loc)));
    }));
}

/// The message of the latest panic seen on any thread (for infrastructure reports).
pub fn last_panic_message() -> String {
    LAST_PANIC_ANY.lock().map(|g| g.clone()).unwrap_or_default()
}

static LAST_PANIC_ANY: Mutex<String> = Mutex::new(String::new());

/// Runs `f`, turning a panic into `Err(message @ file:line)`.
pub fn catch<R>(f: impl FnOnce() -> R) -> Result<R, String> {
    match catch_unwind(AssertUnwindSafe(f)) {
        Ok(r) => Ok(r),
        Err(_) => Err(LAST_PANIC
            .with(|p| p.borrow_mut().take())
            .unwrap_or_else(|| "panic".to_string())),
    }
}

// ---------------------------------------------------------------- verdicts

#[derive(Debug, Clone)]
pub enum Verdict {
    Pass,
    Fail { key: String, detail: String },
}

impl Verdict {
    pub fn fail(key: impl Into<String>, detail: impl Into<String>) -> Verdict {
        Verdict::Fail {
            key: key.into(),
            detail: detail.into(),
        }
    }
    pub fn is_pass(&self) -> bool {
        matches!(self, Verdict::Pass)
    }
}

/// Per-case record filled in by a check.
#[derive(Default)]
pub struct CaseRec {
    /// Fingerprint of the case if it met the property's non-trivial rule.
    pub nontrivial: Option<u64>,
    pub classes: Vec<&'static str>,
    /// Number of sub-evaluations the case performed beyond itself
    /// (e.g. perturbations of one base line).
    pub extra_evals: u64,
    /// Cases excluded by construction inside the check (counted, not judged).
    pub excluded: u64,
    /// Optional richer rendering of the case for the evidence samples.
    pub sample_note: Option<Value>,
}

impl CaseRec {
    pub fn class(&mut self, c: &'static str) {
        if !self.classes.contains(&c) {
            self.classes.push(c);
        }
    }
    pub fn nontrivial_if(&mut self, cond: bool, fp: u64) {
        if cond {
            self.nontrivial = Some(fp);
        }
    }
}

#[derive(Debug, Clone)]
pub struct Violation {
    pub key: String,
    pub detail: String,
    pub replay: PathBuf,
}

pub struct Recorder {
    pub evaluations: AtomicU64,
    pub nontrivial: Mutex<HashSet<u64>>,
    pub samples: Mutex<Vec<Value>>,
    pub classes: Mutex<BTreeMap<String, u64>>,
    pub known_hits: Mutex<BTreeMap<String, u64>>,
    pub excluded: AtomicU64,
    pub per_family: Mutex<BTreeMap<String, u64>>,
    pub exhaustive_families: Mutex<Vec<String>>,
    pub notes: Mutex<Vec<String>>,
    pub extra: Mutex<BTreeMap<String, Value>>,
    pub nontrivial_capped: AtomicBool,
}

pub const MAX_SAMPLES: usize = 12;

impl Recorder {
    pub fn new() -> Recorder {
        Recorder {
            evaluations: AtomicU64::new(0),
            nontrivial: Mutex::new(HashSet::new()),
            samples: Mutex::new(vec![]),
            classes: Mutex::new(BTreeMap::new()),
            known_hits: Mutex::new(BTreeMap::new()),
            excluded: AtomicU64::new(0),
            per_family: Mutex::new(BTreeMap::new()),
            exhaustive_families: Mutex::new(vec![]),
            notes: Mutex::new(vec![]),
            extra: Mutex::new(BTreeMap::new()),
            nontrivial_capped: AtomicBool::new(false),
        }
    }
    pub fn note(&self, s: impl Into<String>) {
        self.notes.lock().unwrap().push(s.into());
    }
    pub fn set_extra(&self, k: &str, v: Value) {
        self.extra.lock().unwrap().insert(k.to_string(), v);
    }
    fn flush(&self, label: &str, l: &mut LocalRec) {
        self.evaluations.fetch_add(l.evaluations, Ordering::Relaxed);
        self.excluded.fetch_add(l.excluded, Ordering::Relaxed);
        *self.per_family.lock().unwrap().entry(label.to_string()).or_insert(0) += l.evaluations;
        l.evaluations = 0;
        l.excluded = 0;
        if !l.classes.is_empty() {
            let mut cl = self.classes.lock().unwrap();
            for (c, n) in std::mem::take(&mut l.classes) {
                *cl.entry(c.to_string()).or_insert(0) += n;
            }
        }
        if !l.nontrivial.is_empty() {
            let mut nt = self.nontrivial.lock().unwrap();
            let salt = hash_str(label);
            for fp in l.nontrivial.drain(..) {
                if nt.len() < NONTRIVIAL_CAP {
                    nt.insert(fp ^ salt);
                } else {
                    self.nontrivial_capped.store(true, Ordering::Relaxed);
                }
            }
        }
        if !l.samples.is_empty() {
            let mut s = self.samples.lock().unwrap();
            for v in l.samples.drain(..) {
                let have = s
                    .iter()
                    .filter(|x| x.get("family").and_then(|f| f.as_str()) == Some(label))
                    .count();
                if have < l.sample_quota && s.len() < 4 * MAX_SAMPLES {
                    s.push(v);
                }
            }
        }
    }
}

/// Distinct non-trivial fingerprints are counted exactly up to this many;
/// beyond it the reported number is a lower bound (noted in the evidence).
pub const NONTRIVIAL_CAP: usize = 8_000_000;

/// Per-worker accumulator, flushed into the shared recorder in batches.
pub struct LocalRec {
    evaluations: u64,
    excluded: u64,
    classes: BTreeMap<&'static str, u64>,
    nontrivial: Vec<u64>,
    samples: Vec<Value>,
    samples_taken: usize,
    sample_quota: usize,
    pending: u32,
}

impl LocalRec {
    pub fn new(sample_quota: usize) -> LocalRec {
        LocalRec {
            evaluations: 0,
            excluded: 0,
            classes: BTreeMap::new(),
            nontrivial: vec![],
            samples: vec![],
            samples_taken: 0,
            sample_quota,
            pending: 0,
        }
    }
    pub fn absorb(&mut self, rec: &Recorder, label: &str, c: &CaseRec, sample: impl FnOnce() -> Value) {
        self.evaluations += 1 + c.extra_evals;
        self.excluded += c.excluded;
        for cl in &c.classes {
            *self.classes.entry(cl).or_insert(0) += 1;
        }
        if let Some(fp) = c.nontrivial {
            self.nontrivial.push(fp);
            if self.samples_taken < self.sample_quota {
                self.samples_taken += 1;
                let mut v = json!({"family": label, "case": sample()});
                if let Some(n) = &c.sample_note {
                    v["note"] = n.clone();
                }
                self.samples.push(v);
            }
        }
        self.pending += 1;
        if self.pending >= 4096 {
            self.pending = 0;
            rec.flush(label, self);
        }
    }
}

pub trait Case: Serialize + DeserializeOwned + std::fmt::Debug + Clone + Send + 'static {}
impl<T: Serialize + DeserializeOwned + std::fmt::Debug + Clone + Send + 'static> Case for T {}

/// One generated (or enumerated) family of cases of a property.
pub trait Family: Sync {
    fn label(&self) -> &str;
    fn search(&self, ctx: &Ctx, rec: &Recorder) -> Vec<Violation>;
    fn replay(&self, case: &Value) -> Result<Verdict, String>;
}

fn write_replay(ctx: &Ctx, label: &str, case: &Value, key: &str, detail: &str) -> PathBuf {
    let body = json!({
        "property": ctx.prop,
        "family": label,
        "key": key,
        "detail": detail,
        "seed": ctx.seed,
        "tier": ctx.tier.name(),
        "case": case,
    });
    let text = serde_json::to_string_pretty(&body).unwrap();
    let h = hash_str(&format!("{}{}{}", label, key, serde_json::to_string(case).unwrap()));
    let path = ctx
        .out_dir()
        .join(format!("{}-{}-{:012x}.json", ctx.prop, label, h & 0xffff_ffff_ffff));
    let _ = std::fs::write(&path, text);
    path
}

fn watchdog_trip(ctx: &Ctx, label: &str, case: &Value) -> ! {
    let path = write_replay(ctx, label, case, "watchdog", "no progress within the watchdog limit");
    println!(
        "INCONCLUSIVE property={} family={} watchdog replay={}",
        ctx.prop,
        label,
        path.display()
    );
    // exit() runs no destructors: child processes (language servers, CLI runs, nesting children,
    // fuzz binaries) would be left behind - possibly spinning, if a hang is what tripped the watchdog
    let _ = std::process::Command::new("pkill").args(["-KILL", "-P", &std::process::id().to_string()]).status();
    std::process::exit(2);
}

/// Handles a verdict inside a search: known findings are tolerated and
/// counted, anything else is a failure to shrink.
fn judge(ctx: &Ctx, rec: &Recorder, v: &Verdict) -> bool {
    match v {
        Verdict::Pass => true,
        Verdict::Fail { key, .. } => {
            if ctx.is_known(key).is_some() {
                *rec.known_hits.lock().unwrap().entry(key.clone()).or_insert(0) += 1;
                true
            } else {
                false
            }
        }
    }
}

// ---------------------------------------------------------------- proptest family

pub struct PropFamily<T, MK, CK> {
    pub label: &'static str,
    pub quick: u64,
    pub thorough: u64,
    /// Builds the strategy (called once per worker thread).
    pub strategy: MK,
    pub check: CK,
    pub sample_quota: usize,
    pub _t: std::marker::PhantomData<fn() -> T>,
}

pub fn prop_family<T, S, MK, CK>(
    label: &'static str,
    quick: u64,
    thorough: u64,
    strategy: MK,
    check: CK,
) -> Box<dyn Family>
where
    T: Case,
    S: Strategy<Value = T>,
    MK: Fn(Tier) -> S + Sync + 'static,
    CK: Fn(&T, &mut CaseRec) -> Verdict + Sync + 'static,
{
    Box::new(PropFamily {
        label,
        quick,
        thorough,
        strategy,
        check,
        sample_quota: 4,
        _t: std::marker::PhantomData,
    })
}

impl<T, S, MK, CK> Family for PropFamily<T, MK, CK>
where
    T: Case,
    S: Strategy<Value = T>,
    MK: Fn(Tier) -> S + Sync,
    CK: Fn(&T, &mut CaseRec) -> Verdict + Sync,
{
    fn label(&self) -> &str {
        self.label
    }

    fn replay(&self, case: &Value) -> Result<Verdict, String> {
        let t: T = serde_json::from_value(case.clone()).map_err(|e| e.to_string())?;
        let mut rec = CaseRec::default();
        Ok((self.check)(&t, &mut rec))
    }

    fn search(&self, ctx: &Ctx, rec: &Recorder) -> Vec<Violation> {
        let total = ctx.cases(self.quick, self.thorough);
        let workers = WORKERS.min(total as usize).max(1);
        let per = (total + workers as u64 - 1) / workers as u64;
        let violations: Mutex<Vec<Violation>> = Mutex::new(vec![]);
        let slots: Vec<Mutex<Option<T>>> = (0..workers).map(|_| Mutex::new(None)).collect();
        let beats: Vec<AtomicU64> = (0..workers).map(|_| AtomicU64::new(0)).collect();
        let done = AtomicU64::new(0);
        std::thread::scope(|scope| {
            for w in 0..workers {
                let violations = &violations;
                let slots = &slots;
                let beats = &beats;
                let done = &done;
                std::thread::Builder::new()
                    .stack_size(WORKER_STACK)
                    .spawn_scoped(scope, move || {
                      let body = || {
                        let seed = splitmix(ctx.seed ^ hash_str(&ctx.prop) ^ hash_str(self.label).rotate_left(17) ^ (w as u64).wrapping_mul(0xA24BAED4963EE407));
                        let config = Config {
                            cases: per as u32,
                            rng_seed: RngSeed::Fixed(seed),
                            failure_persistence: None,
                            max_shrink_iters: 20_000,
                            max_global_rejects: 1_000_000,
                            max_local_rejects: 1_000_000,
                            verbose: 0,
                            ..Config::default()
                        };
                        let mut runner = TestRunner::new(config);
                        let strat = (self.strategy)(ctx.tier);
                        let failed_once = Cell::new(false);
                        let local = RefCell::new(LocalRec::new(self.sample_quota));
                        let last_fail: RefCell<Option<(String, String)>> = RefCell::new(None);
                        let result = runner.run(&strat, |t: T| {
                            if ctx.stop.load(Ordering::Relaxed) && !failed_once.get() {
                                return Ok(());
                            }
                            *slots[w].lock().unwrap() = Some(t.clone());
                            beats[w].store(ctx.start.elapsed().as_millis() as u64, Ordering::Relaxed);
                            let mut crec = CaseRec::default();
                            let v = (self.check)(&t, &mut crec);
                            beats[w].store(0, Ordering::Relaxed);
                            if !failed_once.get() {
                                if judge(ctx, rec, &v) {
                                    local.borrow_mut().absorb(rec, self.label, &crec, || serde_json::to_value(&t).unwrap());
                                    return Ok(());
                                }
                                failed_once.set(true);
                            }
                            match v {
                                Verdict::Pass => Ok(()),
                                Verdict::Fail { key, detail } => {
                                    if ctx.is_known(&key).is_some() {
                                        // while shrinking: a known shape is not the failure we minimise
                                        Ok(())
                                    } else {
                                        *last_fail.borrow_mut() = Some((key.clone(), detail.clone()));
                                        Err(TestCaseError::fail(key))
                                    }
                                }
                            }
                        });
                        rec.flush(self.label, &mut local.borrow_mut());
                        if let Err(TestError::Fail(_, value)) = result {
                            ctx.stop.store(true, Ordering::Relaxed);
                            // Re-evaluate the minimal case to get its own key/detail.
                            let mut crec = CaseRec::default();
                            let (key, detail) = match (self.check)(&value, &mut crec) {
                                Verdict::Fail { key, detail } => (key, detail),
                                Verdict::Pass => last_fail
                                    .borrow()
                                    .clone()
                                    .unwrap_or(("unstable".into(), "shrunk case passed on re-evaluation".into())),
                            };
                            let cj = serde_json::to_value(&value).unwrap();
                            let path = write_replay(ctx, self.label, &cj, &key, &detail);
                            violations.lock().unwrap().push(Violation { key, detail, replay: path });
                        } else if let Err(TestError::Abort(reason)) = result {
                            rec.note(format!("family {} worker {} aborted: {}", self.label, w, reason));
                        }
                      };
                        if let Err(p) = catch(body) {
                            *ctx.infra.lock().unwrap() = Some(format!("harness panic in family {}: {}", self.label, p));
                            ctx.stop.store(true, Ordering::Relaxed);
                        }
                        done.fetch_add(1, Ordering::Relaxed);
                    })
                    .unwrap();
            }
            // watchdog
            let slots = &slots;
            let beats = &beats;
            let done = &done;
            scope.spawn(move || {
                while done.load(Ordering::Relaxed) < workers as u64 {
                    std::thread::sleep(std::time::Duration::from_millis(200));
                    let now = ctx.start.elapsed().as_millis() as u64;
                    for w in 0..workers {
                        let b = beats[w].load(Ordering::Relaxed);
                        if b != 0 && now.saturating_sub(b) > WATCHDOG_SECS * 1000 {
                            let case = slots[w].lock().unwrap().clone();
                            let cj = case.map(|c| serde_json::to_value(&c).unwrap()).unwrap_or(Value::Null);
                            watchdog_trip(ctx, self.label, &cj);
                        }
                    }
                }
            });
        });
        violations.into_inner().unwrap()
    }
}

// ---------------------------------------------------------------- enumerated family

/// A family whose cases are enumerated: `count(tier)` cases, `make(tier, i)`
/// builds the i-th. Cases are split over the workers by index stride. No
/// shrinking: enumeration orders are small-first.
pub struct EnumFamily<T, CN, MK, CK> {
    pub label: &'static str,
    pub exhaustive: bool,
    pub count: CN,
    pub make: MK,
    pub check: CK,
    pub sample_quota: usize,
    pub _t: std::marker::PhantomData<fn() -> T>,
}

pub fn enum_family<T, CN, MK, CK>(
    label: &'static str,
    exhaustive: bool,
    count: CN,
    make: MK,
    check: CK,
) -> Box<dyn Family>
where
    T: Case,
    CN: Fn(Tier) -> u64 + Sync + 'static,
    MK: Fn(Tier, u64) -> T + Sync + 'static,
    CK: Fn(&T, &mut CaseRec) -> Verdict + Sync + 'static,
{
    Box::new(EnumFamily {
        label,
        exhaustive,
        count,
        make,
        check,
        sample_quota: 4,
        _t: std::marker::PhantomData,
    })
}

impl<T, CN, MK, CK> Family for EnumFamily<T, CN, MK, CK>
where
    T: Case,
    CN: Fn(Tier) -> u64 + Sync,
    MK: Fn(Tier, u64) -> T + Sync,
    CK: Fn(&T, &mut CaseRec) -> Verdict + Sync,
{
    fn label(&self) -> &str {
        self.label
    }
    fn replay(&self, case: &Value) -> Result<Verdict, String> {
        let t: T = serde_json::from_value(case.clone()).map_err(|e| e.to_string())?;
        let mut rec = CaseRec::default();
        Ok((self.check)(&t, &mut rec))
    }
    fn search(&self, ctx: &Ctx, rec: &Recorder) -> Vec<Violation> {
        let total = (self.count)(ctx.tier);
        if self.exhaustive {
            rec.exhaustive_families.lock().unwrap().push(self.label.to_string());
        }
        let workers = WORKERS.min(total.max(1) as usize);
        let violations: Mutex<Vec<Violation>> = Mutex::new(vec![]);
        let slots: Vec<Mutex<Option<T>>> = (0..workers).map(|_| Mutex::new(None)).collect();
        let beats: Vec<AtomicU64> = (0..workers).map(|_| AtomicU64::new(0)).collect();
        let done = AtomicU64::new(0);
        std::thread::scope(|scope| {
            for w in 0..workers {
                let violations = &violations;
                let slots = &slots;
                let beats = &beats;
                let done = &done;
                std::thread::Builder::new()
                    .stack_size(WORKER_STACK)
                    .spawn_scoped(scope, move || {
                      let body = || {
                        let mut i = w as u64;
                        let mut local = LocalRec::new(self.sample_quota);
                        while i < total {
                            if ctx.stop.load(Ordering::Relaxed) {
                                break;
                            }
                            let t = (self.make)(ctx.tier, i);
                            *slots[w].lock().unwrap() = Some(t.clone());
                            beats[w].store(ctx.start.elapsed().as_millis() as u64, Ordering::Relaxed);
                            let mut crec = CaseRec::default();
                            let v = (self.check)(&t, &mut crec);
                            beats[w].store(0, Ordering::Relaxed);
                            if judge(ctx, rec, &v) {
                                local.absorb(rec, self.label, &crec, || serde_json::to_value(&t).unwrap());
                            } else if let Verdict::Fail { key, detail } = v {
                                ctx.stop.store(true, Ordering::Relaxed);
                                let cj = serde_json::to_value(&t).unwrap();
                                let path = write_replay(ctx, self.label, &cj, &key, &detail);
                                violations.lock().unwrap().push(Violation { key, detail, replay: path });
                                break;
                            }
                            i += workers as u64;
                        }
                        rec.flush(self.label, &mut local);
                      };
                        if let Err(p) = catch(body) {
                            *ctx.infra.lock().unwrap() = Some(format!("harness panic in family {}: {}", self.label, p));
                            ctx.stop.store(true, Ordering::Relaxed);
                        }
                        done.fetch_add(1, Ordering::Relaxed);
                    })
                    .unwrap();
            }
            let slots = &slots;
            let beats = &beats;
            let done = &done;
            scope.spawn(move || {
                while done.load(Ordering::Relaxed) < workers as u64 {
                    std::thread::sleep(std::time::Duration::from_millis(200));
                    let now = ctx.start.elapsed().as_millis() as u64;
                    for w in 0..workers {
                        let b = beats[w].load(Ordering::Relaxed);
                        if b != 0 && now.saturating_sub(b) > WATCHDOG_SECS * 1000 {
                            let case = slots[w].lock().unwrap().clone();
                            let cj = case.map(|c| serde_json::to_value(&c).unwrap()).unwrap_or(Value::Null);
                            watchdog_trip(ctx, self.label, &cj);
                        }
                    }
                }
            });
        });
        violations.into_inner().unwrap()
    }
}

// ---------------------------------------------------------------- property runner

pub struct Property {
    pub id: &'static str,
    pub rule: &'static str,
    pub assumptions: Vec<&'static str>,
    pub families: Vec<Box<dyn Family>>,
    /// Optional extra step run before the families (self-tests, child
    /// process batteries...). Returns violations.
    pub prelude: Option<Box<dyn Fn(&Ctx, &Recorder) -> Result<Vec<Violation>, String> + Sync>>,
    /// Optional step run after the families (e.g. to record measured extremes).
    pub epilogue: Option<Box<dyn Fn(&Ctx, &Recorder) + Sync>>,
    /// Coverage-guided second engine (thorough tier only).
    pub fuzz: Option<FuzzSpec>,
}

/// A cargo-fuzz (libFuzzer) campaign with the property's oracle inside the target.
pub struct FuzzSpec {
    pub target: &'static str,
    /// -runs per process (8 processes with different seeds share one corpus)
    pub runs: u64,
    pub max_len: u32,
    /// the same decode + oracle the target runs, for classifying / replaying an artifact
    pub verdict: fn(&[u8]) -> Verdict,
}

pub const FUZZ_PROCS: u64 = 8;

/// Runs the campaign; returns violations (one per distinct artifact key).
pub fn run_fuzz(ctx: &Ctx, prop: &Property, spec: &FuzzSpec, rec: &Recorder) -> Result<Vec<Violation>, String> {
    let harness = ctx.verif_dir.join("harness");
    let work = ctx.out_dir().join("fuzz").join(spec.target);
    let _ = std::fs::remove_dir_all(&work);
    let corpus = work.join("corpus");
    let artifacts = work.join("artifacts");
    std::fs::create_dir_all(&artifacts).map_err(|e| e.to_string())?;
    let seeds = crate::fuzz::emit_corpus(spec.target, &corpus).map_err(|e| e.to_string())?;
    let t0 = Instant::now();
    let build = std::process::Command::new("cargo")
        .args(["+nightly", "fuzz", "build", spec.target])
        .current_dir(&harness)
        .env("CARGO_NET_OFFLINE", "true")
        .env("RUST_BACKTRACE", "0")
        .output()
        .map_err(|e| format!("cargo fuzz build: {}", e))?;
    if !build.status.success() {
        return Err(format!("cargo +nightly fuzz build {} failed: {}", spec.target, String::from_utf8_lossy(&build.stderr).lines().rev().take(15).collect::<Vec<_>>().join(" | ")));
    }
    let bin = harness.join("fuzz/target/x86_64-unknown-linux-gnu/release").join(spec.target);
    let dict = ctx.verif_dir.join("corpus/fuzz.dict");
    let mut children = vec![];
    for k in 0..FUZZ_PROCS {
        let child = std::process::Command::new(&bin)
            .arg(&corpus)
            .arg(format!("-runs={}", ((spec.runs as f64) * ctx.scale) as u64))
            .arg(format!("-seed={}", 1 + (splitmix(ctx.seed ^ k.wrapping_mul(0x9E37)) % 4_000_000_000)))
            .arg(format!("-dict={}", dict.display()))
            .arg("-len_control=0")
            .arg("-use_value_profile=1")
            .arg(format!("-max_len={}", spec.max_len))
            .arg(format!("-artifact_prefix={}/p{}-", artifacts.display(), k))
            .arg("-print_final_stats=1")
            .arg("-timeout=60")
            .arg("-rss_limit_mb=4096")
            .env("RUST_BACKTRACE", "0")
            .stdout(std::process::Stdio::null())
            // a log file, not a pipe: nobody reads a pipe before the process is waited for, and
            // libFuzzer blocks on a full pipe (the eight processes then run one after the other)
            .stderr(std::fs::File::create(work.join(format!("p{}.log", k))).map_err(|e| e.to_string())?)
            .spawn()
            .map_err(|e| format!("spawn {}: {}", bin.display(), e))?;
        children.push((k, child));
    }
    let mut total_runs = 0u64;
    let mut crashed = false;
    for (k, mut c) in children {
        let status = c.wait().map_err(|e| e.to_string())?;
        let err = std::fs::read(work.join(format!("p{}.log", k))).map(|b| String::from_utf8_lossy(&b).to_string()).unwrap_or_default();
        for l in err.lines() {
            if let Some(n) = l.strip_prefix("stat::number_of_executed_units:") {
                total_runs += n.trim().parse::<u64>().unwrap_or(0);
            }
        }
        if !status.success() {
            crashed = true;
        }
    }
    rec.evaluations.fetch_add(total_runs, Ordering::Relaxed);
    *rec.per_family.lock().unwrap().entry(format!("libfuzzer:{}", spec.target)).or_insert(0) += total_runs;
    rec.set_extra(
        "libfuzzer",
        json!({"target": spec.target, "processes": FUZZ_PROCS, "executed_units": total_runs, "seed_corpus_files": seeds,
               "final_corpus_files": std::fs::read_dir(&corpus).map(|d| d.count()).unwrap_or(0), "wall_s": t0.elapsed().as_secs_f64(),
               "note": "libFuzzer -seed pins a campaign only approximately; a saved artifact is the reproducible unit"}),
    );
    let mut out = vec![];
    let mut seen = HashSet::new();
    if let Ok(rd) = std::fs::read_dir(&artifacts) {
        let mut files: Vec<PathBuf> = rd.filter_map(|e| e.ok()).map(|e| e.path()).collect();
        files.sort();
        for f in files {
            let Ok(bytes) = std::fs::read(&f) else { continue };
            let name = f.file_name().and_then(|n| n.to_str()).unwrap_or("");
            let v = match catch(|| (spec.verdict)(&bytes)) {
                Ok(v) => v,
                Err(p) => Verdict::fail("panic", p),
            };
            match v {
                Verdict::Fail { key, detail } => {
                    if ctx.is_known(&key).is_some() {
                        *rec.known_hits.lock().unwrap().entry(key).or_insert(0) += 1;
                    } else if seen.insert(key.clone()) {
                        out.push(Violation { key, detail, replay: f.clone() });
                    }
                }
                Verdict::Pass => {
                    // timeouts / out-of-memory / slow units are not verdicts
                    if name.contains("crash") {
                        out.push(Violation { key: "fuzz-crash-not-reproduced-in-process".into(), detail: format!("artifact {} aborted the fuzz target but passes the in-process oracle", name), replay: f.clone() });
                    } else {
                        rec.note(format!("libFuzzer artifact {} (timeout/oom/slow unit) is inconclusive", name));
                    }
                }
            }
        }
    }
    if crashed && out.is_empty() && rec.known_hits.lock().unwrap().is_empty() {
        rec.note("a fuzz process exited non-zero without leaving a classifiable artifact (inconclusive)");
    }
    let _ = prop;
    Ok(out)
}

pub fn write_evidence(ctx: &Ctx, prop: &Property, rec: &Recorder, violations: usize) {
    let mut samples = rec.samples.lock().unwrap().clone();
    // keep a balanced subset
    if samples.len() > MAX_SAMPLES {
        let mut by_family: BTreeMap<String, Vec<Value>> = BTreeMap::new();
        for s in samples.drain(..) {
            by_family
                .entry(s["family"].as_str().unwrap_or("").to_string())
                .or_default()
                .push(s);
        }
        let mut out = vec![];
        let mut round = 0;
        while out.len() < MAX_SAMPLES {
            let mut any = false;
            for v in by_family.values() {
                if let Some(s) = v.get(round) {
                    if out.len() < MAX_SAMPLES {
                        out.push(s.clone());
                    }
                    any = true;
                }
            }
            if !any {
                break;
            }
            round += 1;
        }
        samples = out;
    }
    if samples.is_empty() {
        // a run that stopped at its first (early) failure has no completed non-trivial case to show
        samples.push(json!({"note": "the run stopped before any non-trivial case completed (see violations)"}));
    }
    let exhaustive_families = rec.exhaustive_families.lock().unwrap().clone();
    let mut coverage = json!({
        "evaluations": rec.evaluations.load(Ordering::Relaxed),
        "distinct_nontrivial": rec.nontrivial.lock().unwrap().len(),
        "rule": prop.rule,
        "samples": samples,
        "classes": *rec.classes.lock().unwrap(),
        "evaluations_per_family": *rec.per_family.lock().unwrap(),
        "known_finding_hits": *rec.known_hits.lock().unwrap(),
        "excluded_by_construction": rec.excluded.load(Ordering::Relaxed),
        "exhaustive_families": exhaustive_families,
        "notes": *rec.notes.lock().unwrap(),
        "distinct_nontrivial_is_lower_bound": rec.nontrivial_capped.load(Ordering::Relaxed),
    });
    for (k, v) in rec.extra.lock().unwrap().iter() {
        coverage[k] = v.clone();
    }
    let ev = json!({
        "property_id": prop.id,
        "tier": ctx.tier.name(),
        "seed": ctx.seed,
        "level": "exploration",
        "coverage": coverage,
        "assumptions": prop.assumptions,
        "wall_s": ctx.start.elapsed().as_secs_f64(),
        "violations": violations,
    });
    let dir = ctx.verif_dir.join("evidence");
    let _ = std::fs::create_dir_all(&dir);
    let path = dir.join(format!("{}.json", prop.id));
    std::fs::write(&path, serde_json::to_string_pretty(&ev).unwrap()).expect("write evidence");
}

/// Runs the committed regression replays of this property. A replay whose key
/// is a listed known finding must still fail that way; every other replay
/// must pass.
fn run_replays(ctx: &Ctx, prop: &Property, rec: &Recorder) -> Vec<Violation> {
    let mut out = vec![];
    let dir = ctx.verif_dir.join("replays");
    let Ok(rd) = std::fs::read_dir(&dir) else {
        return out;
    };
    let mut files: Vec<PathBuf> = rd
        .filter_map(|e| e.ok())
        .map(|e| e.path())
        .filter(|p| {
            p.file_name()
                .and_then(|n| n.to_str())
                .map(|n| n.starts_with(&format!("{}-", prop.id)) && n.ends_with(".json"))
                .unwrap_or(false)
        })
        .collect();
    files.sort();
    let mut n = 0u64;
    for f in files {
        match replay_file(ctx, prop, &f) {
            Ok(Verdict::Pass) => {
                n += 1;
            }
            Ok(Verdict::Fail { key, detail }) => {
                n += 1;
                if ctx.is_known(&key).is_some() {
                    *rec.known_hits.lock().unwrap().entry(key).or_insert(0) += 1;
                } else {
                    out.push(Violation { key, detail, replay: f.clone() });
                }
            }
            Err(e) => {
                eprintln!("replay {} unusable: {}", f.display(), e);
                std::process::exit(3);
            }
        }
    }
    rec.set_extra("regression_replays_run", json!(n));
    rec.evaluations.fetch_add(n, Ordering::Relaxed);
    *rec.per_family.lock().unwrap().entry("regression-replays".to_string()).or_insert(0) += n;
    out
}

pub fn replay_file(_ctx: &Ctx, prop: &Property, path: &Path) -> Result<Verdict, String> {
    let bytes = std::fs::read(path).map_err(|e| e.to_string())?;
    let parsed = std::str::from_utf8(&bytes).ok().and_then(|t| serde_json::from_str::<Value>(t).ok()).filter(|v| v.get("family").is_some());
    let Some(v) = parsed else {
        // not a replay file of ours: a raw libFuzzer artifact
        let Some(spec) = &prop.fuzz else {
            return Err("not a replay file and the property has no fuzz target".into());
        };
        return Ok(match catch(|| (spec.verdict)(&bytes)) {
            Ok(v) => v,
            Err(p) => Verdict::fail("panic", p),
        });
    };
    let fam = v["family"].as_str().ok_or("no family")?;
    let family = prop
        .families
        .iter()
        .find(|f| f.label() == fam)
        .ok_or_else(|| format!("unknown family {}", fam))?;
    family.replay(&v["case"])
}

/// Runs a whole property; returns the process exit code.
pub fn run_property(ctx: &Ctx, prop: &Property, only_family: Option<&str>) -> i32 {
    let rec = Recorder::new();
    let mut violations: Vec<Violation> = vec![];
    violations.extend(run_replays(ctx, prop, &rec));
    if let Some(pre) = &prop.prelude {
        match pre(ctx, &rec) {
            Ok(v) => violations.extend(v),
            Err(e) => {
                eprintln!("INFRASTRUCTURE property={} {}", prop.id, e);
                return 3;
            }
        }
    }
    for fam in &prop.families {
        if let Some(only) = only_family {
            if fam.label() != only {
                continue;
            }
        }
        if !violations.is_empty() {
            break;
        }
        let t0 = Instant::now();
        let v = fam.search(ctx, &rec);
        eprintln!(
            "[{}] family {} done in {:.1}s ({} evaluations so far)",
            prop.id,
            fam.label(),
            t0.elapsed().as_secs_f64(),
            rec.evaluations.load(Ordering::Relaxed)
        );
        violations.extend(v);
    }
    if let (Some(spec), Tier::Thorough, true, None) = (&prop.fuzz, ctx.tier, violations.is_empty(), only_family) {
        let t0 = Instant::now();
        match run_fuzz(ctx, prop, spec, &rec) {
            Ok(v) => violations.extend(v),
            Err(e) => {
                write_evidence(ctx, prop, &rec, violations.len());
                println!("INFRASTRUCTURE property={} {}", prop.id, e);
                return 3;
            }
        }
        eprintln!("[{}] libFuzzer campaign {} done in {:.1}s", prop.id, spec.target, t0.elapsed().as_secs_f64());
    }
    if let Some(epi) = &prop.epilogue {
        epi(ctx, &rec);
    }
    if let Some(msg) = ctx.infra.lock().unwrap().clone() {
        write_evidence(ctx, prop, &rec, violations.len());
        println!("INFRASTRUCTURE property={} {}", prop.id, msg);
        return 3;
    }
    // distinct keys only
    let mut seen = HashSet::new();
    violations.retain(|v| seen.insert(v.key.clone()));
    write_evidence(ctx, prop, &rec, violations.len());
    for (key, n) in rec.known_hits.lock().unwrap().iter() {
        let what = ctx.is_known(key).map(|k| k.what.clone()).unwrap_or_default();
        println!("KNOWN-FINDING: property={} key={} hits={} {}", prop.id, key, n, what);
    }
    for v in &violations {
        println!("VIOLATION property={} replay={}", prop.id, v.replay.display());
        println!("  key={} detail={}", v.key, v.detail.replace('\n', "\\n"));
    }
    if violations.is_empty() {
        println!(
            "OK property={} tier={} seed={} evaluations={} distinct_nontrivial={} wall_s={:.1}",
            prop.id,
            ctx.tier.name(),
            ctx.seed,
            rec.evaluations.load(Ordering::Relaxed),
            rec.nontrivial.lock().unwrap().len(),
            ctx.start.elapsed().as_secs_f64()
        );
        0
    } else {
        1
    }
}

/// Monotone index mapping recommended for shrinking: maps a u16 draw onto 0..len.
pub fn idx(draw: u16, len: usize) -> usize {
    if len == 0 {
        0
    } else {
        ((draw as usize) * len) >> 16
    }
}

/// Helper for tests of strategies outside the runner.
pub fn sample_strategy<S: Strategy>(s: &S, seed: u64, n: usize) -> Vec<S::Value> {
    let mut runner = TestRunner::new(Config {
        rng_seed: RngSeed::Fixed(seed),
        failure_persistence: None,
        ..Config::default()
    });
    (0..n)
        .map(|_| s.new_tree(&mut runner).unwrap().current())
        .collect()
}
