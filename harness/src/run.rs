//! Running a stored program to completion under a reply script, with hooks
//! at every turn boundary (used by C07-C11, C16, C17).

use crate::sess::*;
use serde::{Deserialize, Serialize};

#[derive(Debug, Clone, PartialEq, Serialize, Deserialize)]
pub enum TEvent {
    Print(String),
    Reenter,
    ExtraIgnored,
    /// A reply was handed to the interpreter.
    Reply(String),
    Warning(String, Option<u64>),
    Trace(u64),
    /// A STOP statement was reached (BREAK notice).
    Stop(Option<u64>),
}

#[derive(Debug, Clone, PartialEq, Serialize, Deserialize)]
pub enum End {
    Finished,
    Error(ErrKind, Option<u64>),
    Budget,
}

#[derive(Debug, Clone, PartialEq)]
pub struct Transcript {
    pub events: Vec<TEvent>,
    pub end: End,
    /// host calls that advanced the program (RUN, continue, CONT, replies)
    pub calls: u64,
    pub stops: u64,
    pub replies: u64,
}

impl Transcript {
    /// Events with trace / warning / stop records removed.
    pub fn essential(&self) -> Vec<TEvent> {
        self.events.iter().filter(|e| !matches!(e, TEvent::Warning(..) | TEvent::Trace(_) | TEvent::Stop(_))).cloned().collect()
    }
    pub fn printed(&self) -> String {
        self.events.iter().filter_map(|e| if let TEvent::Print(p) = e { Some(p.as_str()) } else { None }).collect()
    }
}

pub fn convert(out: &[Out], events: &mut Vec<TEvent>) -> bool {
    let mut stop = false;
    for o in out {
        match o {
            Out::Print(p) => events.push(TEvent::Print(p.clone())),
            Out::Reenter => events.push(TEvent::Reenter),
            Out::ExtraIgnored => events.push(TEvent::ExtraIgnored),
            Out::Warning(w, l) => events.push(TEvent::Warning(w.clone(), *l)),
            Out::Trace(l) => events.push(TEvent::Trace(*l)),
            Out::Break(l) => {
                events.push(TEvent::Stop(*l));
                stop = true;
            }
        }
    }
    stop
}

/// What the host does at a turn boundary.
pub trait Host {
    /// Called between two program-advancing calls while the program is
    /// running or awaiting input. Return true after having broken in (the
    /// runner then resumes with CONT).
    fn boundary(&mut self, _sess: &mut Sess, _turn: u64, _state: St, _events_so_far: usize) -> Result<bool, Crash> {
        Ok(false)
    }
    /// Called when the program has executed STOP, before CONT.
    fn at_stop(&mut self, _sess: &mut Sess, _turn: u64) -> Result<(), Crash> {
        Ok(())
    }
}

pub struct NoHost;
impl Host for NoHost {}

pub const DEFAULT_REPLY: &str = "0";

/// Starts the stored program with `start_cmd` (normally RUN) and drives it
/// until it ends, fails, or `budget` program-advancing calls were made.
/// STOPs are resumed with CONT.
pub fn drive(sess: &mut Sess, start_cmd: &str, replies: &[String], budget: u64, host: &mut dyn Host) -> Result<Transcript, Crash> {
    let mut t = Transcript { events: vec![], end: End::Finished, calls: 0, stops: 0, replies: 0 };
    let mut next_reply = 0usize;
    let mut r = sess.line(start_cmd)?;
    t.calls += 1;
    loop {
        let stopped = convert(&r.out, &mut t.events);
        if let Some(e) = &r.err {
            t.end = End::Error(e.kind, e.line);
            return Ok(t);
        }
        if stopped && r.state == St::Idle {
            t.stops += 1;
            host.at_stop(sess, t.calls)?;
            if t.calls >= budget {
                t.end = End::Budget;
                return Ok(t);
            }
            r = sess.line("CONT")?;
            t.calls += 1;
            continue;
        }
        match r.state {
            St::Idle => {
                t.end = End::Finished;
                return Ok(t);
            }
            st => {
                if t.calls >= budget {
                    t.end = End::Budget;
                    return Ok(t);
                }
                if host.boundary(sess, t.calls, st, t.events.len())? {
                    r = sess.line("CONT")?;
                    t.calls += 1;
                    continue;
                }
                if st == St::Running {
                    r = sess.cont()?;
                    t.calls += 1;
                } else {
                    let text = replies.get(next_reply).cloned().unwrap_or_else(|| DEFAULT_REPLY.to_string());
                    next_reply += 1;
                    t.replies += 1;
                    t.events.push(TEvent::Reply(text.clone()));
                    r = sess.reply(&text)?;
                    t.calls += 1;
                }
            }
        }
    }
}

/// Enters the program and runs it.
pub fn load_and_run(lines: &[String], seed: u64, replies: &[String], budget: u64, host: &mut dyn Host) -> Result<Result<(Sess, Transcript), ErrInfo>, Crash> {
    let mut sess = Sess::new();
    sess.randomize(seed);
    if let Err(e) = sess.enter_program(lines)? {
        return Ok(Err(e));
    }
    let t = drive(&mut sess, "RUN", replies, budget, host)?;
    Ok(Ok((sess, t)))
}

/// Compares two transcripts; when either ended by budget only the common
/// prefix of the essential events is compared.
pub fn same_behaviour(a: &Transcript, b: &Transcript) -> Result<(), String> {
    let (ea, eb) = (a.essential(), b.essential());
    if a.end == End::Budget || b.end == End::Budget {
        let n = ea.len().min(eb.len());
        if ea[..n] != eb[..n] {
            let i = (0..n).find(|i| ea[*i] != eb[*i]).unwrap();
            return Err(format!("event #{} differs: {:?} vs {:?}", i, ea[i], eb[i]));
        }
        return Ok(());
    }
    if ea != eb {
        let n = ea.len().min(eb.len());
        return Err(match (0..n).find(|i| ea[*i] != eb[*i]) {
            Some(i) => format!("event #{} differs: {:?} vs {:?}", i, ea[i], eb[i]),
            None => format!("one run has {} events, the other {} (next: {:?})", ea.len(), eb.len(), if ea.len() > n { ea.get(n) } else { eb.get(n) }),
        });
    }
    if a.end != b.end {
        return Err(format!("outcome differs: {:?} vs {:?}", a.end, b.end));
    }
    Ok(())
}

/// The reply pool plus replies that carry several lines (a paste, a host that
/// forwards raw text): legal reply texts whose handling no model is needed for
/// in the metamorphic / differential checks that use this pool.
pub fn reply_pool_with_multiline() -> Vec<&'static str> {
    let mut v = reply_pool().to_vec();
    v.extend(["1\n2", "3\n4\n5", "abc\n7", "\n", "8\r\n9"]);
    v
}

pub fn reply_pool() -> &'static [&'static str] {
    &["1", "0", "-5", "2.5", "abc", "hello world", "", "\"quoted\"", "\"a,b\"", "1,2", "7:8", " 3 ", "\"x\" ", "x,y", "12abc", "é"]
}
