#!/opt/veriftools/pyvenv/bin/python
import json, jsonschema, glob, sys
m = json.load(open('/verif/MANIFEST.json'))
jsonschema.validate(m, json.load(open('/root/.vp/MANIFEST.schema.json')))
es = json.load(open('/root/.vp/EVIDENCE.schema.json'))
bad = 0
for c in m['checks']:
    f = c['evidence_file']
    try:
        jsonschema.validate(json.load(open(f)), es)
    except Exception as e:
        bad += 1
        print('INVALID', f, str(e)[:200])
ids = {json.loads(l)['id'] for l in open('/verif/properties.jsonl')}
claimed = {c['property_id'] for c in m['checks']}
na = {n['property_id'] for n in m.get('not_applicable', [])}
assert claimed | na == ids and not (claimed & na), (ids - claimed - na, claimed & na)
print('manifest valid; claimed', len(claimed), 'n/a', len(na), 'bad evidence', bad)
sys.exit(1 if bad else 0)
