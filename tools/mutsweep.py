#!/usr/bin/env python3
"""Systematic sensitivity sweep with mechanically generated mutants.

Works on private copies (/tmp/mut/repo, /tmp/mut/verif) so that /repo and /verif are never
touched. For every mutant that compiles and passes the repository's own suite, the relevant
quick checks are run (VERIF_SCALE reduced); results go to /verif/notes/mutsweep.jsonl.

usage: tools/mutsweep.py [--max N] [--start K] [--scale S]
"""
import json, os, re, subprocess, sys, hashlib, time

MUT = "/tmp/mut"
REPO = f"{MUT}/repo"
VERIF = f"{MUT}/verif"
OUT = "/verif/notes/mutsweep.jsonl"
ENV = dict(os.environ, RUST_BACKTRACE="0", CARGO_NET_OFFLINE="true", CARGO_TERM_COLOR="never")

# which checks can observe a change in which file
RELEVANT = {
 "tokenizer.rs": ["C12", "C13", "C14", "C05", "C04"],
 "line_cruncher.rs": ["C12", "C13"],
 "line_number_parser.rs": ["C04", "C14", "C05", "C15"],
 "data.rs": ["C12", "C14", "C03", "C08", "C11"],
 "program_lines.rs": ["C04", "C14", "C11", "C03"],
 "program.rs": ["C03", "C07", "C10", "C11", "C16", "C01", "C09"],
 "interpreter.rs": ["C01", "C07", "C08", "C10", "C04", "C09", "C17"],
 "statement.rs": ["C03", "C08", "C09", "C17", "C07", "C06"],
 "expression.rs": ["C02", "C03", "C17", "C16", "C01"],
 "operators.rs": ["C02", "C03", "C06"],
 "value.rs": ["C02", "C03", "C08", "C16"],
 "variables.rs": ["C16", "C03"],
 "arrays.rs": ["C03", "C16", "C01"],
 "random.rs": ["C18", "C03"],
 "builtins.rs": ["C02", "C03"],
 "interpreter_error.rs": ["C01", "C19", "C15"],
 "interpreter_output.rs": ["C19", "C15", "C17"],
 "string_manager.rs": ["C03", "C14", "C01"],
 "symbol.rs": ["C03"],
 "syntax_error.rs": ["C05", "C01", "C13"],
 "analyzer/expression_analyzer.rs": ["C06", "C05"],
 "analyzer/statement_analyzer.rs": ["C06", "C05"],
 "analyzer/source_file_analyzer.rs": ["C05", "C15", "C20", "C06"],
 "analyzer/source_map.rs": ["C05", "C20"],
 "analyzer/symbol_access.rs": ["C05", "C20"],
 "analyzer/token_type.rs": ["C20"],
 "analyzer/value_type.rs": ["C06"],
 # front ends (paths relative to abasic-core/src)
 "../../abasic-cli/src/stdio_interpreter.rs": ["C15", "C08"],
 "../../abasic-cli/src/stdio_printer.rs": ["C15"],
 "../../abasic-cli/src/cli_args.rs": ["C15"],
 "../../abasic-web/src/lib.rs": ["C19"],
 "../../abasic-lsp/src/main.rs": ["C20"],
}

RULES = [
 (r"==", "!="), (r"!=", "=="),
 (r"<=", "<"), (r">=", ">"),
 (r"(?<![<>=!-])<(?![<=>])\s", "<= "), (r"(?<![<>=!-])>(?![<=>])\s", ">= "),
 (r"\+ 1\b", "+ 0"), (r"- 1\b", "- 0"), (r"\+= 1\b", "+= 2"),
 (r"\btrue\b", "false"), (r"\bfalse\b", "true"),
 (r"&&", "||"), (r"\|\|", "&&"),
 (r"\.rev\(\)", ""),
 (r"\.is_some\(\)", ".is_none()"), (r"\.is_none\(\)", ".is_some()"),
 (r"\.is_empty\(\)", ".len() == 1"),
]
DELETE = re.compile(r"^\s*self\.[a-z_\.]+\((?:[^;]*)\);\s*$")

def sh(cmd, cwd=None, timeout=900):
    try:
        p = subprocess.run(cmd, shell=True, cwd=cwd, env=ENV, capture_output=True, text=True, timeout=timeout)
        return p.returncode, p.stdout + p.stderr
    except subprocess.TimeoutExpired:
        return 124, "timeout"

def setup():
    os.makedirs(MUT, exist_ok=True)
    sh(f"rsync -a --delete --exclude target --exclude .git /repo/ {REPO}/")
    sh(f"rsync -a --delete --exclude harness/target --exclude out --exclude .git --exclude seeded --exclude evidence /verif/ {VERIF}/")
    os.makedirs(f"{VERIF}/evidence", exist_ok=True)
    for f in [f"{VERIF}/harness/Cargo.toml"]:
        s = open(f).read().replace('"/repo/', f'"{REPO}/')
        open(f, "w").write(s)
    s = open(f"{VERIF}/check").read().replace("REPO_DIR=/repo", f"REPO_DIR={REPO}")
    open(f"{VERIF}/check", "w").write(s)
    # reuse build caches between mutants
    rc, out = sh("cargo build --release --offline", cwd=f"{VERIF}/harness", timeout=1800)
    if rc != 0:
        print(out[-2000:]); sys.exit(3)

def candidates():
    out = []
    base = f"{REPO}/abasic-core/src"
    for rel in sorted(RELEVANT):
        path = f"{base}/{rel}"
        if not os.path.exists(path):
            continue
        lines = open(path).read().split("\n")
        in_tests = False
        for i, l in enumerate(lines):
            if "#[cfg(test)]" in l:
                in_tests = True
            if '#[cfg(feature = "verif-hooks")]' in l and i + 1 < len(lines) and lines[i + 1].startswith("impl"):
                in_tests = True  # the instrumentation impl blocks at the end of a file are not product code
            if in_tests or l.strip().startswith("//") or "verif" in l or "assert" in l or "panic!" in l:
                continue
            for pat, rep in RULES:
                for m in re.finditer(pat, l):
                    new = l[:m.start()] + rep + l[m.end():]
                    if new != l:
                        out.append((rel, i, l, new, f"{pat} -> {rep}"))
            if DELETE.match(l) and "push" not in l:
                out.append((rel, i, l, "", "delete statement"))
    return out

def main():
    mx = 120; start = 0; scale = "0.3"; only = None
    a = sys.argv[1:]
    while a:
        k = a.pop(0)
        if k == "--max": mx = int(a.pop(0))
        elif k == "--start": start = int(a.pop(0))
        elif k == "--scale": scale = a.pop(0)
        elif k == "--only": only = a.pop(0)
    setup()
    cands = candidates()
    if only:
        cands = [c for c in cands if only in c[0]]
    # deterministic spread over files: order by hash
    cands.sort(key=lambda c: hashlib.sha1(f"{c[0]}{c[1]}{c[4]}".encode()).hexdigest())
    print(len(cands), "candidate mutants; running", mx, "from", start, flush=True)
    done = 0
    for (rel, i, old, new, what) in cands[start:]:
        if done >= mx:
            break
        path = f"{REPO}/abasic-core/src/{rel}"
        lines = open(path).read().split("\n")
        assert lines[i] == old
        lines[i] = new
        open(path, "w").write("\n".join(lines))
        rec = {"file": rel, "line": i + 1, "what": what, "old": old.strip(), "new": new.strip()}
        try:
            rc, out = sh("cargo build -p abasic-core --features verif-hooks --offline" if not rel.startswith("..") else "cargo build --workspace --offline", cwd=REPO, timeout=300)
            if rc != 0:
                rec["result"] = "does-not-compile"
                continue
            rc, out = sh("timeout 90 cargo test --workspace --offline", cwd=REPO, timeout=400)
            if rc != 0:
                rec["result"] = "killed-by-repo-suite"
                continue
            done += 1
            killed_by = []
            other = []
            for chk in RELEVANT[rel]:
                env = dict(ENV, VERIF_SCALE=scale)
                try:
                    # own session: on timeout the whole group is killed (a mutant that loops forever
                    # would otherwise leave its language-server / CLI children spinning)
                    pr = subprocess.Popen(["./check", chk, "--tier", "quick"], cwd=VERIF, env=env, stdout=subprocess.PIPE, stderr=subprocess.PIPE, text=True, start_new_session=True)
                    try:
                        out_s, _ = pr.communicate(timeout=900)
                        rc = pr.returncode
                        keys = re.findall(r"^  key=(\S+)", out_s, re.M)
                    except subprocess.TimeoutExpired:
                        import signal
                        os.killpg(pr.pid, signal.SIGKILL)
                        pr.wait()
                        rc, keys = 124, []
                except OSError:
                    rc, keys = 125, []
                if rc == 1:
                    killed_by.append((chk, keys[:3]))
                    break
                elif rc != 0:
                    other.append((chk, rc))
            rec["result"] = "killed" if killed_by else "SURVIVED"
            rec["killed_by"] = killed_by
            rec["other"] = other
        finally:
            lines[i] = old
            open(path, "w").write("\n".join(lines))
            with open(OUT, "a") as f:
                f.write(json.dumps(rec) + "\n")
            print(rec.get("result"), rel, i + 1, what, rec.get("killed_by", ""), rec.get("other", ""), flush=True)

if __name__ == "__main__":
    main()
