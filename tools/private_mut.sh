#!/bin/bash
# usage: tools/private_mut.sh <file-in-repo> <sed-expr> <check args...>
# Sensitivity run on private copies (/tmp/seedrun): mutate a copy of /repo with sed, run ./check there.
set -u
F="$1"; E="$2"; shift 2
R=/tmp/seedrun
mkdir -p $R
rsync -a --delete --exclude target --exclude .git /repo/ $R/repo/
rsync -a --delete --exclude harness/target --exclude harness/fuzz/target --exclude out --exclude .git --exclude evidence /verif/ $R/verif/
mkdir -p $R/verif/evidence $R/verif/out
sed -i "s#\"/repo/#\"$R/repo/#g" $R/verif/harness/Cargo.toml
sed -i "s#^REPO_DIR=/repo#REPO_DIR=$R/repo#" $R/verif/check
cp "$R/repo/$F" /tmp/private_mut_before
sed -i "$E" "$R/repo/$F"
if cmp -s "$R/repo/$F" /tmp/private_mut_before; then echo "MUTATION DID NOT APPLY"; exit 3; fi
(cd $R/repo && RUST_BACKTRACE=0 timeout 120 cargo test --workspace --offline 2>&1 | grep -E "^test result: FAILED|panicked" | head -2)
cd $R/verif && ./check "$@" 2>&1 | grep -E "VIOLATION|^OK|key=|INFRA|INCONCL" | cut -c1-400
