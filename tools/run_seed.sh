#!/bin/bash
# usage: tools/run_seed.sh <seed-id> [check ids...]   (default: the property the seed targets)
# Applies /verif/seeded/<seed-id>/patch.diff to /repo, runs the given checks (quick tier),
# restores /repo, and prints one line per check: CAUGHT / MISSED / other.
set -u
SID="$1"; shift
DIR=/verif/seeded/$SID
PROP="$(echo "$SID" | sed "s/[a-z]*$//")"
[ $# -eq 0 ] && set -- "$PROP"
if [ -n "$(git -C /repo status --porcelain)" ]; then echo "/repo not clean"; exit 3; fi
git -C /repo apply "$DIR/patch.diff" || { echo "patch does not apply"; exit 3; }
cd /verif
for P in "$@"; do
  OUT=$(./check "$P" --tier quick 2>&1); RC=$?
  KEYS=$(echo "$OUT" | grep -E "^  key=" | sed 's/ detail=.*//' | tr '\n' ' ')
  case $RC in
    0) echo "$SID vs $P: MISSED (exit 0)";;
    1) echo "$SID vs $P: CAUGHT $KEYS";;
    *) echo "$SID vs $P: exit $RC $(echo "$OUT" | grep -E "INFRA|INCONCL" | head -1)";;
  esac
done
git -C /repo checkout -- . ; git -C /repo clean -fdq
