#!/bin/bash
# usage: tools/with_patch.sh <patch-file> <command...>
# Applies a patch to /repo's working tree, runs the command, and restores /repo.
# (/repo must be clean; never run while a background job uses /repo.)
set -u
PATCH="$(readlink -f "$1")"; shift
if [ -n "$(git -C /repo status --porcelain)" ]; then echo "/repo not clean"; exit 3; fi
git -C /repo apply "$PATCH" || { echo "patch does not apply"; exit 3; }
"$@"; RC=$?
git -C /repo checkout -- . ; git -C /repo clean -fdq
exit $RC
