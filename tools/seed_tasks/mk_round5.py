import json,sys,os,subprocess
exec(open('/tmp/wt/mk_task.py').read().split("for i in sys.argv")[0])
THEMES = {
 0: "a change around NUMERIC BOUNDARIES or COUNTING: an integer type narrowed or widened, a cap / limit / index comparison off by one, an overflow or rounding path handled slightly differently, a counter updated at the wrong moment",
 1: "a change in STATE LIFECYCLE: something that is no longer reset / cleared / saved / restored on ONE particular path (an error path, the break path, NEW, RUN, CONT, an edit, the second execution of a statement, re-entry of a loop or subroutine)",
 2: "a change in TEXT HANDLING or in the GLUE between components: Unicode / CRLF / tabs / letter case / leading zeros / trailing blanks, or the hand-over between tokenizer, analyzer, interpreter, CLI, web adapter and language server (conversions, option plumbing, message mapping)",
}
ids = sys.argv[1:]
for n,i in enumerate(ids):
    wt=f"/tmp/wt/{i}e"
    subprocess.run(["git","-C","/repo","worktree","add","-q","--detach",wt,"HEAD"],check=True)
    prev=[]
    for suf in ["","b","c","d"]:
        f=f"/verif/seeded/{i}{suf}/agent_meta.json"
        if os.path.exists(f):
            a=json.load(open(f))
            prev.append((a.get("summary") or "", str(a.get("needs_to_manifest"))))
    note="\n## Round 5 note\n\nOther engineers already produced seeded changes for this property (described below).\nProduce a DIFFERENT one: a different code site (preferably a different function or file) and a different triggering condition.\n"
    for k,(s,nd) in enumerate(prev):
        note+=f"\nExisting seeded change {k+1} (do not repeat): {s}\nIt needed: {nd}\n"
    theme=THEMES[(n+int(i[1:]))%3]
    note+=f"\nThis time the change should be disguised as {theme}. It must NOT show up as a crash or a hang, and it should not be detectable by running the two sample programs in `programs/` or a ten-line smoke test: the triggering situation should need at least two cooperating conditions (two language features, two host operations, or a feature plus a boundary value).\n"
    open(f"{wt}/TASK.md","w").write(task(i,wt)+note)
    print("wrote",wt,theme[:20])
