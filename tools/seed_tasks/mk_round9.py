import json,sys,os,subprocess
exec(open('/verif/tools/seed_tasks/mk_task.py').read().split("for i in sys.argv")[0])
THEMES = {0: "a realistic maintenance change (bug fix gone slightly wrong, clean-up, small feature, performance tweak) whose effect is confined to a rarely exercised path: an error or recovery path, a documented limit or boundary value (longest string, largest line number, deepest stack, array bounds, numeric extremes), non-ASCII or CR/LF text, or state left over from an EARLIER operation of the session (a previous run, a previous error, a previous edit) - its code site and its trigger must differ from all the earlier ones, and it should need at least THREE cooperating conditions", 1: "a realistic maintenance change (bug fix gone slightly wrong, clean-up, small feature, performance tweak) whose effect is confined to a rarely exercised path: an error or recovery path, a documented limit or boundary value (longest string, largest line number, deepest stack, array bounds, numeric extremes), non-ASCII or CR/LF text, or state left over from an EARLIER operation of the session (a previous run, a previous error, a previous edit) - its code site and its trigger must differ from all the earlier ones, and it should need at least THREE cooperating conditions", 2: "a realistic maintenance change (bug fix gone slightly wrong, clean-up, small feature, performance tweak) whose effect is confined to a rarely exercised path: an error or recovery path, a documented limit or boundary value (longest string, largest line number, deepest stack, array bounds, numeric extremes), non-ASCII or CR/LF text, or state left over from an EARLIER operation of the session (a previous run, a previous error, a previous edit) - its code site and its trigger must differ from all the earlier ones, and it should need at least THREE cooperating conditions"}
ids = sys.argv[1:]
for n,i in enumerate(ids):
    wt=f"/tmp/wt/{i}h"
    subprocess.run(["git","-C","/repo","worktree","add","-q","--detach",wt,"HEAD"],check=True)
    prev=[]
    for suf in ["","b","c","d","e","f","g"]:
        f=f"/verif/seeded/{i}{suf}/agent_meta.json"
        if os.path.exists(f):
            a=json.load(open(f))
            prev.append((a.get("summary") or "", str(a.get("needs_to_manifest"))))
    note="\n## Round 9 note\n\nOther engineers already produced seeded changes for this property (described below).\nProduce a DIFFERENT one: a different code site (preferably a different function or file) and a different triggering condition.\n"
    for k,(s,nd) in enumerate(prev):
        note+=f"\nExisting seeded change {k+1} (do not repeat): {s}\nIt needed: {nd}\n"
    theme=THEMES[(n+int(i[1:]))%3]
    note+=f"\nThis time the change should be disguised as {theme}. It must NOT show up as a crash or a hang, and it should not be detectable by running the two sample programs in `programs/` or a ten-line smoke test: the triggering situation should need at least two cooperating conditions (two language features, two host operations, or a feature plus a boundary value).\n"
    open(f"{wt}/TASK.md","w").write(task(i,wt)+note)
    print("wrote",wt,theme[:20])
