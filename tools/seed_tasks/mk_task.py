import json,sys
props={json.loads(l)['id']:json.loads(l) for l in open('/verif/properties.jsonl')}
def task(i, wt):
    p=props[i]
    return f"""# Task: seed a realistic property-breaking change into toolness/abasic

You work in a private git worktree of the Rust project toolness/abasic at `{wt}`
(ABASIC: a small Applesoft-style BASIC interpreter; crates abasic-core (tokenizer,
token-stream evaluator, static analyzer), abasic-cli, abasic-web (wasm adapter +
ts/main.ts page script), abasic-lsp). Work ONLY inside `{wt}`. Do not read, list or
write anything under /verif, /repo or other directories of /tmp/wt - other people
use them and your result must be independent of them.

Environment: no network. Use `cargo ... --offline`. Always run tests with
`RUST_BACKTRACE=0` (with the sandbox default of 1, two existing tests fail
spuriously). The existing suite is `RUST_BACKTRACE=0 cargo test --workspace --offline`
(about 153 tests, all pass on the unchanged tree).

## The property

Id {p['id']}: **{p['title']}**

{p['statement']}

Quantified over: {p['quantifier']['text']}

## What to produce

A change to the source code of toolness/abasic (not to its tests) that BREAKS this
property, such that

1. the workspace still compiles (`cargo build --workspace --offline`),
2. the existing test suite, unedited, still passes,
3. the change is REALISTIC: the kind of slip a maintainer could make in a refactor,
   an optimisation, a "simplification" or a feature addition (off-by-one, wrong
   comparison, a reset forgotten on one path, stale cached state, a missed case,
   two sites that each look fine alone but disagree, ...), not obvious sabotage,
4. it needs something SPECIFIC to manifest - a particular multi-step sequence of
   operations, an unusual but legal input, a particular interleaving of host calls,
   a boundary value, or two cooperating sites - so that ordinary use and a casual
   smoke test would not expose it at once,
5. it is small (roughly <= 30 changed lines) and does not touch anything guarded by
   the cargo feature `verif-hooks` (leave those items working; if you change a
   struct that has such a field, keep it compiling with `--features verif-hooks`
   for abasic-core: check with `cargo build -p abasic-core --features verif-hooks --offline`).

Also write a demonstration that FAILS with your change and PASSES without it:
preferably a Rust integration test file (for example one that can be copied to
`abasic-core/tests/seeded_demo.rs` and run with
`RUST_BACKTRACE=0 cargo test -p abasic-core --test seeded_demo --offline`), using only the
public API (`abasic_core::Interpreter`, `InterpreterState`, `InterpreterOutput`,
`SourceFileAnalyzer`, ...; look at `abasic-core/tests/interpreter_test.rs` for how the
existing tests drive the interpreter). For CLI / LSP / web properties a shell or
python script driving the built binaries is fine too.

Verify BOTH directions yourself: with the change the demo fails, with the change
removed the demo passes (do NOT use `git stash` - the stash is shared between worktrees and
other engineers use it; instead `git diff > /tmp/<your-id>.diff; git apply -R /tmp/<your-id>.diff; ...;
git apply /tmp/<your-id>.diff`); and the full existing suite passes with the
change.

## Deliverables (all inside `{wt}/seeded/`)

* `patch.diff` - output of `git diff` (source change only, NOT the demo), must apply
  with `git apply` to a clean checkout of the same commit;
* the demonstration file(s) (e.g. `seeded_demo.rs`, and a `run_demo.sh` that copies it
  into place and runs it, exiting non-zero when the property is broken);
* `meta.json`: {{"property": "{p['id']}", "summary": "...", "needs_to_manifest": "...",
  "files_changed": [...], "why_existing_tests_pass": "...", "demo_command": "...",
  "verified": {{"suite_passes_with_change": true, "demo_fails_with_change": true,
  "demo_passes_without_change": true}}}}.

Leave the worktree with your change applied (uncommitted). In your final answer give a
3-6 line summary: what you changed, what is needed to trigger it, how you verified.
If after honest effort you cannot find a change meeting all conditions, say so and
explain what you tried - do not fake the verification.
"""
for i in sys.argv[1:]:
    wt=f"/tmp/wt/{i}"
    open(f"{wt}/TASK.md","w").write(task(i,wt))
    print("wrote",wt)
