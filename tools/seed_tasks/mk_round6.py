import json,sys,os,subprocess
exec(open('/tmp/wt/mk_task.py').read().split("for i in sys.argv")[0])
THEMES = {
 0: "a change on an ERROR PATH or in a DIAGNOSTIC: which error kind is raised first when two apply, where it is attributed, what state is left behind after it, how it is rendered - ordinary successful execution stays identical",
 1: "a change that only shows in the INTERACTION OF TWO FEATURES that each still work alone (for example a user function used inside FOR bounds or subscripts, GOSUB inside an IF..ELSE clause, READ into a cell with an expression subscript, statements typed in direct mode while a program is suspended, TRACE together with jumps, an array and a scalar of the same name)",
 2: "a DATA-STRUCTURE or ORDERING change (a Vec replaced by a map or the reverse, lookup by index vs by key, a sort / dedup / retain added or dropped, iteration order, an entry updated in place vs removed and re-inserted, clone vs shared reference)",
}
ids = sys.argv[1:]
for n,i in enumerate(ids):
    wt=f"/tmp/wt/{i}f"
    subprocess.run(["git","-C","/repo","worktree","add","-q","--detach",wt,"HEAD"],check=True)
    prev=[]
    for suf in ["","b","c","d","e"]:
        f=f"/verif/seeded/{i}{suf}/agent_meta.json"
        if os.path.exists(f):
            a=json.load(open(f))
            prev.append((a.get("summary") or "", str(a.get("needs_to_manifest"))))
    note="\n## Round 6 note\n\nOther engineers already produced seeded changes for this property (described below).\nProduce a DIFFERENT one: a different code site (preferably a different function or file) and a different triggering condition.\n"
    for k,(s,nd) in enumerate(prev):
        note+=f"\nExisting seeded change {k+1} (do not repeat): {s}\nIt needed: {nd}\n"
    theme=THEMES[(n+int(i[1:]))%3]
    note+=f"\nThis time the change should be disguised as {theme}. It must NOT show up as a crash or a hang, and it should not be detectable by running the two sample programs in `programs/` or a ten-line smoke test: the triggering situation should need at least two cooperating conditions (two language features, two host operations, or a feature plus a boundary value).\n"
    open(f"{wt}/TASK.md","w").write(task(i,wt)+note)
    print("wrote",wt,theme[:20])
