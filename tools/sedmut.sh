#!/bin/bash
# usage: tools/sedmut.sh <file-in-repo> <sed-expr> <check args...>
# One-off sensitivity run: mutate /repo with sed, run ./check, restore.
set -u
F="$1"; E="$2"; shift 2
if [ -n "$(git -C /repo status --porcelain)" ]; then echo "/repo not clean"; exit 3; fi
sed -i "$E" "/repo/$F"
if [ -z "$(git -C /repo status --porcelain)" ]; then echo "MUTATION DID NOT APPLY"; exit 3; fi
(cd /repo && RUST_BACKTRACE=0 timeout 120 cargo test --workspace --offline 2>&1 | grep -E "^test result: FAILED|panicked|error(\[|:)" | head -3)
cd /verif && ./check "$@" 2>&1 | grep -E "VIOLATION|^OK|key=|INFRA|INCONCL" | cut -c1-400
git -C /repo checkout -- .
