#!/usr/bin/env python3
"""Regenerates /verif/MANIFEST.json from the table below (run after adding a property)."""
import json, os, subprocess
HERE = os.path.dirname(os.path.dirname(os.path.abspath(__file__)))

CLAIMED = {
 "C15": dict(
   technique="differential property testing: file loading vs line-by-line entry in-process, and `abasic FILE` vs piped interactive session as child processes over all 8 option sets",
   text="Generated well-formed source files (shuffled line order, earlier duplicate definitions, LF/CRLF, random spacing/case) are loaded through SourceFileAnalyzer::into_interpreter and typed into a second interpreter; LIST and the full RUN event sequence must be identical. At process level the CLI is run in file mode and in piped interactive mode for every combination of --warnings / --tracing / --skip-check; stdout (minus the banner), stderr (minus static-analysis lines) and exit status must be identical.",
   note="Drives the debug build of abasic-cli with piped stdin (rustyline's non-terminal path), private HOME, NO_COLOR=1; programs without RND for the process-level part (the CLI seeds from the clock).",
   design="4/C15"),
 "C19": dict(
   technique="stateful model-based testing: generated page-event histories through a Rust transliteration of the page script driving the real JsInterpreter natively, differential against a shadow core interpreter after every adapter call; libFuzzer target (page events decoded from bytes) in the thorough tier",
   text="Generated histories of load / submit / break / tick events are handled exactly as main.ts handles them (incl. the setTimeout chain with stale ticks, the recursion on Errored, the disabled-input end state); after every adapter call the state, the drained output records (type, text) and the error text must equal what the core interpreter produces for the same calls, no adapter assertion or the NewInterpreterRequested panic may fire, and after NEW a probe script must not distinguish the adapter from a fresh one.",
   note="The transliteration of main.ts is a trusted model (TypeScript cannot be built here; the file's SHA-256 is recorded in the evidence); traps are native panics of the same Rust code.",
   design="4/C19"),
 "C20": dict(
   technique="property-based protocol fuzzing of the real abasic-lsp child process over stdio with generated open/change/token sequences; validity predicate in UTF-16 units and differential against the in-process analyzer",
   text="Each case starts a real abasic-lsp process, performs initialize / initialized, 1-12 generated didOpen / didChange / semanticTokens steps (C05 documents, non-ASCII documents, raw Unicode, character-by-character typing sequences), then shutdown / exit. Every step must be answered, the process must exit 0, every diagnostic and token must lie inside its line measured in UTF-16 units, tokens must be ordered, non-overlapping and within the advertised legend, and diagnostics and tokens must equal the analyzer's results converted to UTF-16 columns.",
   note="Well-formed JSON-RPC only; a server silent for 60 s counts as inconclusive; debug build of abasic-lsp.",
   design="4/C20"),
 "C06": dict(
   technique="differential property testing of two implementations (static analyzer vs interpreter) over generated well-typed, ill-typed and text-damaged lines and programs (word deletion / duplication / swap / truncation, `$` toggles, fractional numerals, substitution by cells, calls of wrong arity or kind, punctuation, keywords; one case in three in shuffled file order), with forced start lines and variable environments",
   text="An exhaustive boundary family first checks 1536 single statements whose expression is nested 90-105 levels deep (parentheses, ABS, subscripts) around the 100-level cap both sides enforce. Direction 1: every generated program the analyzer accepts is executed by RUN and from each of its lines under three variable environments and mixed replies; no execution may end in a syntax error, TYPE MISMATCH or UNDEF'D STATEMENT. Direction 2: every analyzer-rejected line without conditionals, control transfers, INPUT or user functions is run alone and must fail. Two confirmed disagreements that have no small repair are recorded as known findings under narrow keys.",
   note="Branch coverage is by start line x environment, not exhaustive over conditions; the straight-line test is decided conservatively on the text.",
   design="4/C06"),
 "C07": dict(
   technique="metamorphic property testing over break schedules: generated programs x exhaustive/random subsets of turn boundaries x generated inspection statements, interrupted run compared with the uninterrupted run of the same implementation",
   text="For generated programs with INPUT/STOP and reply scripts, the run interrupted by host breaks at a chosen subset of turn boundaries (all subsets for runs of <= 7 calls), with side-effect-free inspection statements executed at each breakpoint (including failing ones, a failing NEXT of an unused variable and failing user-function calls; replies include multi-line ones) and resumed with CONT, must produce the same prints, notices, consumed replies and final outcome as the uninterrupted run. A second family checks that an assignment entered at a STOP equals the same assignment written in place of the STOP.",
   note="Implementation compared with itself; inspection statements are restricted by construction (snapshot hook) to ones that cannot create arrays or advance RND; runs bounded by 400 calls.",
   design="4/C07"),
 "C08": dict(
   technique="model-based lockstep testing (reference interpreter vs implementation at every input request) plus a metamorphic INPUT==assignment relation, over generated programs and reply scripts",
   text="Implementation and reference interpreter are advanced in lockstep over generated programs with INPUT in every syntactic position and replies from the documented reply grammar; (one case in three after an INPUT exchange at the prompt was abandoned, rejected-then-abandoned or answered, or after the program itself was run to its first request and broken off) at each input request the output so far, the REENTER / EXTRA IGNORED notices, the await-input state and finally the outcome and scalar values must agree. Independently of the model, replacing each once-executed INPUT by an assignment of the accepted item must not change output, outcome or final scalars.",
   note="Trusts model.rs (incl. its 40-line reply parser) for the lockstep family; the metamorphic family compares the implementation with itself.",
   design="4/C08"),
 "C09": dict(
   technique="property testing with per-call invariants over generated (also non-terminating) programs: trace/print record counts per host call, break-in at generated points, statement count against the reference interpreter, hook-measured token reads per call",
   text="Every executing host call of a traced run may emit trace records for one line only and at most 1 + (IFs on that line) of them, at most one print and one notice; a generated break-in must idle the interpreter with a BREAK notice naming a program line and CONT must resume; finished runs need at least as many calls as the reference interpreter executed top-level statements; for DEF-free programs token-cursor reads per call are bounded linearly in the current line's token count (hook counter, factor 12, observed maximum 5.1).",
   note="The work bound is decided for token-cursor reads, not time; the constant is calibrated on the unchanged tree.",
   design="4/C09"),
 "C10": dict(
   technique="metamorphic / differential stateful testing: generated session histories before RUN, used interpreter vs fresh interpreter with the same program, seed and flags",
   text="After a generated history (earlier runs left completed / failed / broken / awaiting input / replied-to-then-broken, immediate assignments, DIMs, open loops, GOSUBs into the program, partial READs, function calls, TRACE toggles, failing lines, edits, multi-line replies; one case in twelve with no program at all) the final RUN must produce the identical event sequence, outcome, state snapshot, control-probe behaviour (CONT / RETURN / NEXT / READ typed afterwards) and variable/cell probes as a fresh interpreter holding the same lines.",
   note="Both sides are seeded alike before the final RUN; bounded by 600 calls.",
   design="4/C10"),
 "C11": dict(
   technique="stateful property testing: generated suspension points x edits x probes with fixed expectations after successful edits and a twin-session differential after rejected edits",
   text="Programs are suspended at generated points (inside loops, subroutines, after partial READs, at STOP, idle after finishing), then edited (add / replace / delete / rejected edit) and probed (CONT, RETURN, NEXT, READ, function call, variable probes, GOTO). After a successful edit the stated errors / first DATA item of the edited program / vanished function / unchanged variables are required; after a rejected edit the probe must behave exactly as in an identically suspended session without the edit attempt.",
   note="The first DATA item of the edited program is computed from the generated AST.",
   design="4/C11"),
 "C16": dict(
   technique="invariant checking over generated sessions (snapshot hook after every host call) plus an exhaustive list of cap-boundary scripts with exact expectations; libFuzzer target (sessions decoded from bytes, invariants in-target) in the thorough tier",
   text="After every host call of generated sessions (ill-typed writes through every path, C01's structured and hostile sessions) the snapshot must show <= 32 frames, <= 32 open loops over distinct variables, arrays whose cell count equals the product of their dimensions and is <= 10000, and name-suffix typing of every scalar, array and parameter binding. Sessions of FOR / NEXT / GOSUB typed one statement per turn are included. Cap-boundary scripts (GOSUB depth 31/32/33, 32/33 nested FORs, re-entered and abandoned loops thousands of times, DIM products 9999/10000/10001, 4+-subscript implicit arrays, ill-typed FORs and undefined jumps executed at the caps, direct-mode GOSUB / FOR / FN calls at a STOP breakpoint taken at the caps) must report OUT OF MEMORY exactly beyond the cap and leave the interpreter usable.",
   note="Observation through the read-only snapshot hook.",
   design="4/C16"),
 "C17": dict(
   technique="metamorphic testing over the four option configurations (+ TRACE/NOTRACE commands, also typed at a breakpoint) and model-based comparison of the trace and warning records",
   text="Each generated program is run 7 times (4 configurations via fields, TRACE typed before RUN, TRACE and NOTRACE typed mid-run at a breakpoint); with trace/warning records removed the event sequence, outcome and final state must be identical, disabled options must emit nothing, immediate lines must not be traced; in the fully enabled run the collapsed trace sequence and the ordered (warning text, line) list must equal the reference interpreter's.",
   note="Trusts model.rs for when a warning is due; runaway DEF recursions are compared on prefixes (where OUT OF MEMORY strikes is unspecified).",
   design="4/C17"),
 "C01": dict(
   technique="stateful property testing / fuzzing: generated host-call histories (proptest, shrinking) through a protocol-respecting driver with crash, idle-after-error, caret-rendering and liveness oracles; child-process battery for native-stack exhaustion; libFuzzer target in the thorough tier",
   text="Generated sessions (structured programs + command scripts, hostile boundary lines, statements of neighbouring BASIC dialects that are refused today, raw Unicode) are driven through the real Interpreter under the turn-taking protocol; every call must return (catch_unwind), every Err must leave the interpreter Idle with a renderable error (a tokenization error shows exactly the submitted line; an error raised while the cursor stood on program line n names n, the line after it, or a DATA / DEF line; an error pointing into a statement line just typed renders that line; carets sit on token starts), breaks and replies must produce the documented states, and a final PRINT 7 must work. Boundary numerals (line 2^64-1, subscripts near 2^32/2^63, 19-40 subscripts, seeds >= 2^44) are enumerated exhaustively in fixed scripts; 16 nesting / token-run constructs (parentheses, calls, subscripts, IF chains, chains of 31 DEFs, runs of unary operators / separators) up to 300000 levels deep are run in child processes on a 1 MiB stack for both the interpreter and the analyzer.",
   note="Panics are observed with catch_unwind in an overflow-checked optimised build; stack exhaustion is decided for the optimised harness build on a 1 MiB main-thread stack (the WASM default; roughly a debug build on 8 MiB) by exit status of child processes; hangs are watchdog exits (2), never violations.",
   design="4/C01"),
 "C05": dict(
   technique="property-based fuzzing of file texts (grammar-generated programs + document-level mutations, mutated repo programs, atom soup, raw Unicode) against a validity predicate over diagnostics and token ranges; libFuzzer target in the thorough tier",
   text="For generated documents SourceFileAnalyzer::analyze must return, yield one token list per file line, and every diagnostic must map to Some((line, range)) on the line it names, inside that line and on character boundaries; per-line token ranges must be ordered, disjoint and in bounds. Duplicated / emptied / untokenizable redefinitions, CRLF, line prefixes (byte order mark, indentation, no-break / zero-width spaces), multi-byte characters outside strings and u64-boundary line numbers are forced by the generator (class histogram in the evidence). Deeply nested and very long constructs are analyzed in child processes on a 1 MiB stack and judged by exit status (family deep-nesting).",
   note="Trusts the 80-line predicate check_document in c05.rs.",
   design="4/C05"),
 "C04": dict(
   technique="stateful property testing: generated edit histories (proptest vec of ops + interpreter of ops) against a BTreeMap reference model; differential against a fresh interpreter; libFuzzer target (histories decoded from bytes, map oracle in-target) in the thorough tier",
   text="Generated histories of add / replace / delete / failed-edit / LIST / RUN operations over colliding and extreme line numbers (0, leading zeros, 2^63, 2^64-1, 20+-digit pseudo numbers). With serial payloads (PRINT k, one in four REM k, one in twelve STOP so that later edits arrive while the program is suspended) the oracle is a BTreeMap and is independent of the tokenizer; with arbitrary statements the used interpreter must LIST and RUN exactly like a fresh one holding the surviving lines. Sampling of the history space; collisions are forced by a small number pool.",
   note="Trusts the 20-line map model in c04.rs; RUN comparisons run under a 2000-turn budget with both sides seeded alike.",
   design="4/C04"),
 "C12": dict(
   technique="metamorphic property testing: lines built from construction-tagged segments, exhaustive and random whitespace/case perturbations, token sequences compared through the tokenizer hook and through LIST; libFuzzer target (tagged segments decoded from bytes) in the thorough tier",
   text="Base lines are assembled from free / protected / DATA-item segments tagged by the generator (never by the tokenizer); free text includes identifiers over every letter, tight digit-letter-sign-digit runs (2E3, 5e-3) and proper prefixes / suffixes of keywords glued to keywords (NOTHEN, xTOgoto). Every base is perturbed: all blanks removed, blank/tab/three blanks in every gap, every single gap, all 2^k gap subsets for k <= 8, all-lower/all-upper, every single letter flip, random flips; each variant must tokenize to the identical token sequence (or identical error kind) and LIST identically. Exhaustive per base line inside those bounds; base lines are sampled.",
   note="Trusts the segment construction (protected map) and the exclusion of lines whose free text accidentally spells REM/DATA; the hook tokenize_with_ranges wraps the real Tokenizer.",
   design="4/C12"),
 "C13": dict(
   technique="exhaustive enumeration of atom strings + random/raw text (proptest) against a validity predicate with a re-tokenization round trip per token; libFuzzer target in the thorough tier",
   text="All strings of up to 4 (quick) / 5 (thorough) atoms from a 40-atom alphabet covering every token class, blanks, tabs, multi-byte and illegal characters are enumerated; random atom strings to length 40, token-dense lines of tagged segments (identifiers over every letter, digit-letter-sign-digit runs), every line of the repo's programs and test sources, and raw Unicode text are added; files of 2-7 numbered lines sharing statement texts under line numbers of different width are analyzed and the analyzer's per-line ranges must equal the tokenizer's. For each line the reported ranges must be in bounds, on char boundaries, ordered, disjoint, separated only by blanks, blank-free at both ends (REM/DATA to their text end), and re-tokenizing each range's text must give exactly that token; for failing lines the error start must be in the line and the prefix must tokenize to the tokens reported before the error.",
   note="Trusts the 100-line predicate in c13.rs and the hook tokenize_with_ranges (iterates the real Tokenizer).",
   design="4/C13"),
 "C14": dict(
   technique="round-trip property testing (LIST -> reload -> LIST fixed point, differential RUN and READ sequence), exhaustive over token-class pairs/triples, random over numerals / DATA / text / programs; libFuzzer target in the thorough tier",
   text="For stored programs built from every ordered pair (thorough: triple) of token-class representatives, numerals in many spellings and contexts, DATA statements with all item kinds, odd spacing and non-ASCII blanks around items, programs reached through edits with a READ typed in between, REM/string text with arbitrary Unicode, random atom lines, token-dense segment lines, grammar-generated programs and the repo's sample programs: LIST must be a fixed point under reloading into a fresh interpreter, every listed line must be accepted, RUN of both must give identical output records and outcome, and RESTORE+READ must yield the identical DATA item sequence.",
   note="Behavioural equality is decided under a 3000-turn budget with equal seeds and a fixed reply to INPUT.",
   design="4/C14"),
 "C03": dict(
   technique="model-based property testing: grammar-generated structured programs (proptest, shrinking) run on the real interpreter and on an independent reference interpreter; outputs and (error kind, line) compared",
   text="An exhaustive boundary family first runs 120 programs that leave 1 / 30-34 FOR loops open and re-enter one of them by GOTO or a non-returning GOSUB (the 32-loop limit met by FOR re-entry). Programs are generated as structured values (nested FOR incl. NEXT of outer variables, loops left by GOTO, guarded backward jumps, GOSUB from THEN/ELSE, recursion to the 32-frame cap, READ/DATA/RESTORE, DIM/implicit arrays, DEF with dynamic scoping, all documented ELSE forms, injected runtime failures), laid out on numbered lines, rendered with random spacing/case and RUN; printed output and failure (kind, line) must equal those of a reference interpreter written from the documented semantics. Sampling of an unbounded program space; class histograms in the evidence show what was reached.",
   note="Trusts harness/src/model.rs (reference interpreter over the AST, ~700 lines) and the renderer; generated programs stay inside the documented ELSE forms and use only identifiers made of non-keyword letters.",
   design="4/C03"),
 "C02": dict(
   technique="exhaustive enumeration of small expression trees + random trees (proptest) vs an independent fold; metamorphic re-rendering with redundant parentheses; libFuzzer target (prefix-notation trees decoded from bytes) in the thorough tier",
   text="All expression trees with one and two binary operators (every operator pair, both shapes), every unary/ABS/INT placement on them, and all 13^3 operator triples in all five shapes are enumerated over a leaf set of literals and assigned/unassigned variables, plus random trees up to 40 nodes; each is rendered four ways from the property's own precedence table and PRINTed by the real interpreter, and must equal an independent recursive fold (value text or error kind). Complete inside the enumerated bounds, sampled beyond.",
   note="Trusts the ~60-line fold in model.rs (apply_bin / eval) and the renderer's parenthesisation, both written from the property statement; powf and f64 Display are shared with the implementation by design.",
   design="4/C02"),
 "C18": dict(
   technique="exhaustive enumeration of generator states + property-based scripts vs independent u128 model (proptest), differential across two interpreters and the Web adapter",
   text="Every one of the 2^33 generator states is stepped through the real Rng (hook rng_step) and compared bit-for-bit with an independent u128 model in the thorough tier (every 128th state plus all power-of-two neighbours in the quick tier); seeds beyond 2^33 and RND call scripts (positive / zero / negative arguments, inside expressions, nested as RND(RND(x)) and through a user function that itself calls RND, in the subscript of an INPUT target, in the condition of an IF whose clause is an INPUT, programs and FOR loops) are generated and compared with the model on two core interpreters and the Web adapter. The state space part is complete; seeds >= 2^33 and call interleavings are sampled.",
   note="Trusts the 15-line u128 model of the documented LCG and Rust's f64 Display; the hook rng_step constructs Rng::new(state) and steps it once.",
   design="4/C18"),
}

PENDING_REASON = "check not built yet in this revision of /verif (planned: see DESIGN.md section 4); no claim is made"

def main():
    props = [json.loads(l) for l in open(os.path.join(HERE, "properties.jsonl"))]
    hooks_commit = subprocess.run(["git", "-C", "/repo", "log", "--format=%H", "--grep=^verif-hooks"], capture_output=True, text=True).stdout.split()
    checks, na = [], []
    for p in props:
        pid = p["id"]
        if pid in CLAIMED:
            c = CLAIMED[pid]
            checks.append({
                "property_id": pid,
                "quick_cmd": f"./check {pid} --tier quick",
                "thorough_cmd": f"./check {pid} --tier thorough",
                "evidence_file": f"/verif/evidence/{pid}.json",
                "replay_cmd_template": f"./check {pid} --replay {{path}}",
                "engine": "abv",
                "level_claimed": {"category": "exploration", "text": c["text"], "design_ref": c["design"]},
                "level_note": c["note"],
                "technique": c["technique"],
            })
        else:
            na.append({"property_id": pid, "reason": PENDING_REASON})
    m = {
        "version": 1,
        "setup_cmd": "cd /verif && ./setup.sh",
        "hooks": {
            "guard": "cargo feature `verif-hooks` of abasic-core (off by default)",
            "enable": "harness/Cargo.toml depends on abasic-core by path with features = [\"verif-hooks\"]; ./check rebuilds it from /repo's working tree",
            "baseline_off_cmd": "cd /repo && RUST_BACKTRACE=0 cargo test --workspace --no-fail-fast --offline",
            "source_commits": hooks_commit,
            "add_only": True,
        },
        "engines": [
            {"name": "abv", "path": "/verif/harness", "serves_properties": sorted(CLAIMED.keys()),
             "kind_free_text": "Rust runner: proptest TestRunner per worker (fixed seeds, shrinking, replay files), exhaustive enumerators, independent reference interpreter, session driver; cargo-fuzz targets for the thorough tier of C01/C05/C13"},
        ],
        "checks": checks,
        "not_applicable": na,
        "notes": "All checks: ./check <id> --tier quick|thorough [--seed N]; VERIF_SEED / VERIF_TIER are honoured. Exit 0 held / 1 VIOLATION / 2 INCONCLUSIVE (watchdog) / 3 infrastructure. Known findings: /verif/known_findings.json. RUST_BACKTRACE is forced to 0 (with 1 the repo's own error strings change).",
    }
    json.dump(m, open(os.path.join(HERE, "MANIFEST.json"), "w"), indent=1)
    print("claimed:", sorted(CLAIMED.keys()), "pending:", len(na))

if __name__ == "__main__":
    main()
