#!/bin/bash
# usage: tools/run_seed_private.sh <seed-id> [check ids...]
# Like run_seed.sh, but on private copies (/tmp/seedrun/{repo,verif}) so that /repo and
# /verif are not touched (usable while background runs use /repo).
set -u
SID="$1"; shift
PROP="$(echo "$SID" | sed "s/[a-z]*$//")"
[ $# -eq 0 ] && set -- "$PROP"
R=/tmp/seedrun
mkdir -p $R
rsync -a --delete --exclude target --exclude .git /repo/ $R/repo/
rsync -a --delete --exclude harness/target --exclude harness/fuzz/target --exclude out --exclude .git --exclude evidence /verif/ $R/verif/
mkdir -p $R/verif/evidence $R/verif/out
sed -i "s#\"/repo/#\"$R/repo/#g" $R/verif/harness/Cargo.toml
sed -i "s#^REPO_DIR=/repo#REPO_DIR=$R/repo#" $R/verif/check
(cd $R/repo && git init -q 2>/dev/null; patch -p1 -s < /verif/seeded/$SID/patch.diff) || { echo "patch does not apply"; exit 3; }
cd $R/verif
for P in "$@"; do
  OUT=$(./check "$P" --tier quick 2>&1); RC=$?
  KEYS=$(echo "$OUT" | grep -E "^  key=" | sed 's/ detail=.*//' | tr '\n' ' ')
  case $RC in
    0) echo "$SID vs $P: MISSED (exit 0)";;
    1) echo "$SID vs $P: CAUGHT $KEYS";;
    *) echo "$SID vs $P: exit $RC $(echo "$OUT" | grep -E "INFRA|INCONCL" | head -1)";;
  esac
done
