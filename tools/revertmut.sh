#!/bin/bash
# usage: tools/revertmut.sh <commit-subject-grep> <check args...>
# Sensitivity run: reverse-apply a fix commit of /repo, run ./check, restore.
set -u
G="$1"; shift
if [ -n "$(git -C /repo status --porcelain)" ]; then echo "/repo not clean"; exit 3; fi
C=$(git -C /repo log --format=%H --grep="$G" | head -1)
[ -z "$C" ] && { echo "no commit matches"; exit 3; }
git -C /repo show "$C" | git -C /repo apply -R || { echo "cannot reverse"; exit 3; }
cd /verif && ./check "$@" 2>&1 | grep -E "VIOLATION|^OK|key=|INFRA|INCONCL|KNOWN" | cut -c1-500
git -C /repo checkout -- .
