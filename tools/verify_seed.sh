#!/bin/bash
# usage: tools/verify_seed.sh <worktree-dir>
# Confirms a seeded change independently: patch applies to a clean checkout, the
# workspace builds and the unedited suite passes with it, the demo fails with it
# and passes without it.
set -u
WT="$1"; cd "$WT" || exit 3
export RUST_BACKTRACE=0 CARGO_NET_OFFLINE=true
[ -f seeded/patch.diff ] || { echo "no patch.diff"; exit 3; }
# start from a clean tree
# (no git stash: the stash is shared between all worktrees of a repository)
git checkout -q -- . 2>/dev/null
git clean -fdq -e seeded -e TASK.md -e target 2>/dev/null
git status --porcelain | grep -v '^??' | head -3
git apply --check seeded/patch.diff || { echo "PATCH DOES NOT APPLY"; exit 1; }
echo "== without change: demo"
bash seeded/run_demo.sh >/tmp/seed_demo_clean.log 2>&1; RC_CLEAN=$?
echo "demo exit without change: $RC_CLEAN"
git checkout -q -- . ; git clean -fdq -e seeded -e TASK.md -e target 2>/dev/null
git apply seeded/patch.diff
echo "== with change: build + suite"
cargo build --workspace --offline >/tmp/seed_build.log 2>&1 || { echo "BUILD FAILS"; tail -5 /tmp/seed_build.log; exit 1; }
cargo build -p abasic-core --features verif-hooks --offline >/tmp/seed_build2.log 2>&1 || { echo "HOOKS BUILD FAILS"; exit 1; }
timeout 300 cargo test --workspace --offline 2>&1 | grep -E "^test result" | sort | uniq -c
echo "== with change: demo"
bash seeded/run_demo.sh >/tmp/seed_demo_changed.log 2>&1; RC_CH=$?
echo "demo exit with change: $RC_CH"
git checkout -q -- . ; git clean -fdq -e seeded -e TASK.md -e target 2>/dev/null
if [ $RC_CLEAN -eq 0 ] && [ $RC_CH -ne 0 ]; then echo "VERIFIED"; else echo "NOT VERIFIED"; fi
