#!/bin/bash
# usage: tools/ingest_seed.sh <seed-id> [extra checks...]
# Confirms the change a sub-agent left in /tmp/wt/<id> (verify_seed.sh), stores it under
# /verif/seeded/<id>/ and runs the target check (plus extra checks) on private copies.
set -u
SID="$1"; shift
WT=/tmp/wt/$SID
[ -f $WT/seeded/patch.diff ] || (cd $WT && git diff -- . ':!seeded' > seeded/patch.diff)
RES=$(bash /verif/tools/verify_seed.sh $WT 2>&1)
echo "$RES" | tail -8
echo "$RES" | grep -q "^VERIFIED" || { echo "$SID: NOT VERIFIED - not stored"; exit 1; }
D=/verif/seeded/$SID; mkdir -p $D
cp $WT/seeded/patch.diff $D/
for f in $WT/seeded/*; do b=$(basename $f); case $b in patch.diff|meta.json) ;; *) cp -r $f $D/;; esac; done
[ -f $WT/seeded/meta.json ] && cp $WT/seeded/meta.json $D/agent_meta.json
echo "$RES" > $D/verify.log
bash /verif/tools/run_seed_private.sh $SID "$@" 2>&1 | tee $D/run.log
