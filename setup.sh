#!/bin/bash
# Builds the verification harness (and the repository binaries two checks drive)
# from files on disk only (offline). Same code path as every check, so the
# content stamps that guard against stale builds are written too.
set -e
cd "$(dirname "$0")"
mkdir -p out evidence
./check --build-only
echo "setup ok"
