#!/bin/bash
# Builds the verification harness from files on disk only (offline).
set -e
cd "$(dirname "$0")"
export CARGO_NET_OFFLINE=true RUST_BACKTRACE=0
mkdir -p out evidence
(cd harness && cargo build --release --offline)
echo "setup ok"
