#!/bin/bash
# Builds the verification harness (and the repository binaries two checks drive)
# from files on disk only (offline).
set -e
cd "$(dirname "$0")"
VERIF_DIR="$(pwd)"
export CARGO_NET_OFFLINE=true RUST_BACKTRACE=0
mkdir -p out evidence
(cd harness && cargo build --release --offline)
(cd /repo && cargo build -p abasic-cli -p abasic-lsp --offline --target-dir "$VERIF_DIR/harness/target/repo")
echo "setup ok"
